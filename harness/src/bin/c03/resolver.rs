//! ContentResolver: path / FileDataID -> CKey (root) -> EKey (encoding) chains over generated manifests.

use crate::common::{Case, Tally, gen_keyset, k16, size40, viol};
use crate::root::{Rec, build_root, version_of};
use cascette_client_storage::resolver::ContentResolver;
use cascette_crypto::{ContentKey, EncodingKey};
use cascette_crypto::FileDataId;
use cascette_formats::encoding::{CKeyEntryData, EKeyEntryData, EncodingBuilder, EncodingFile};
use cascette_formats::root::{RootBuilder, RootFile};
use serde_json::{Value, json};
use std::collections::BTreeMap;
use vh::Ctx;

pub fn cases(quick: bool) -> Vec<Case> {
    let mut v = Vec::new();
    let mut idx = 0u64;
    let reps = if quick { 40 } else { 200 };
    for _ in 0..reps {
        for ver in ["V1", "V2", "V3", "V4"] {
            // totals outside 16..99: the header-layout ambiguity of small V2 manifests is judged by the root family
            for total in [5usize, 120, 300] {
                for style in ["normalized", "as-given"] {
                    for named in ["all", "ge10"] {
                        if ver == "V1" && named != "all" {
                            continue;
                        }
                        v.push(Case::new("resolver", idx, json!({"version":ver,"total":total,"path_style":style,"named":named})));
                        idx += 1;
                    }
                }
            }
        }
    }
    v
}

pub fn run(ctx: &Ctx, case: &Case, t: &mut Tally) {
    let mut rng = case.rng(ctx);
    let version = version_of(case.s("version"));
    let style = case.s("path_style").to_string();
    t.o("resolver.structures", 1);
    let Some(built) = build_root(&mut rng, version, case.u("total"), case.s("named"), "multi", style == "normalized") else {
        t.o("resolver.root_builder_refused", 1);
        return;
    };
    // encoding table for the content keys of the manifest (a few left out on purpose) plus unrelated keys
    let mut ckeys: Vec<[u8; 16]> = built.recs.iter().map(|r| r.ckey).collect();
    ckeys.sort_unstable();
    ckeys.dedup();
    let mut enc_model: BTreeMap<[u8; 16], (u64, Vec<[u8; 16]>)> = BTreeMap::new();
    let mut left_out = 0usize;
    let extra = gen_keyset(&mut rng, 40, 16);
    let n_ck = ckeys.len() + extra.len();
    // an all-zero EKey stored with ESpec index 0 is read as page padding (judged by the encoding family): keep it out of the chain workload
    let mut ekeys = gen_keyset(&mut rng, n_ck * 3 + 2, 16);
    ekeys.retain(|k| k.iter().any(|&b| b != 0));
    let mut epos = 0usize;
    let mut builder = EncodingBuilder::new().with_page_sizes(rng.urange(1, 4) as u16, rng.urange(1, 4) as u16);
    for ck in ckeys.iter().copied().chain(extra.iter().map(|k| k16(k))) {
        if enc_model.contains_key(&ck) {
            continue;
        }
        if rng.chance(1, 12) {
            left_out += 1;
            continue;
        }
        let k = rng.urange(1, 3);
        let eks: Vec<[u8; 16]> = ekeys[epos..epos + k].iter().map(|e| k16(e)).collect();
        epos += k;
        let size = size40(&mut rng);
        for ek in &eks {
            builder.add_ekey_entry(EKeyEntryData { encoding_key: EncodingKey::from_bytes(*ek), espec: if rng.bool() { "z".into() } else { "n".into() }, file_size: size40(&mut rng) });
        }
        builder.add_ckey_entry(CKeyEntryData { content_key: ContentKey::from_bytes(ck), file_size: size, encoding_keys: eks.iter().copied().map(EncodingKey::from_bytes).collect() });
        enc_model.insert(ck, (size, eks));
    }
    if enc_model.is_empty() {
        t.o("resolver.empty_encoding_skipped", 1);
        return;
    }
    let enc_bytes = match builder.build().and_then(|f| f.build()) {
        Ok(b) => b,
        Err(_) => {
            t.o("resolver.encoding_builder_refused", 1);
            return;
        }
    };
    let resolver = if case.idx % 2 == 0 { ContentResolver::new() } else { ContentResolver::default() };
    let info: Value = json!({"records": built.recs.len(), "named": built.named_count, "ckeys_in_encoding": enc_model.len(), "ckeys_left_out": left_out, "path_style": style});
    if let Err(e) = resolver.load_root_file(&built.bytes) {
        viol(ctx, case, "C03|resolver|load_root_file|fails-on-built-manifest", "ContentResolver cannot load a RootBuilder-produced manifest", json!({"error": e.to_string(), "info": info}));
        return;
    }
    if let Err(e) = resolver.load_encoding_file(&enc_bytes) {
        viol(ctx, case, "C03|resolver|load_encoding_file|fails-on-built-table", "ContentResolver cannot load an EncodingBuilder-produced table", json!({"error": e.to_string(), "info": info}));
        return;
    }
    ctx.eval_nontrivial(case.hash());
    let probe_ckeys: Vec<[u8; 16]> = ckeys.iter().copied().chain(extra.iter().map(|k| k16(k))).collect();
    let gone = Gone::default();
    battery(ctx, case, t, &mut rng, &resolver, &built.recs, &built.paths, &enc_model, &probe_ckeys, &gone, &style, "", &info);
    t.o(&format!("resolver.path_style.{style}"), 1);
    if case.idx % RES_EXT_EVERY != 0 {
        return;
    }
    // ---- coverage-driven extension (1): caches are transparent - after clear_caches() every lookup answers as before
    let st = resolver.stats();
    t.o("resolver.ext.stats_calls", 1);
    t.o("resolver.ext.path_cache_entries_seen", st.path_cache_size as u64);
    resolver.clear_caches();
    t.o("resolver.ext.clear_caches", 1);
    battery(ctx, case, t, &mut rng, &resolver, &built.recs, &built.paths, &enc_model, &probe_ckeys, &gone, &style, "after-clear_caches|", &info);
    // ---- (2): edited manifests (RootBuilder::from_root_file / EncodingBuilder::from_encoding_file + removals and
    // replacements) loaded into the same resolver: removed keys must be gone, replaced keys must resolve to the new value
    let (Ok(root0), Ok(enc0)) = (RootFile::parse(&built.bytes), EncodingFile::parse(&enc_bytes)) else { return };
    let mut rb = RootBuilder::from_root_file(&root0);
    let mut recs2: Vec<(Rec, Option<String>)> = built.recs.iter().enumerate().map(|(i, r)| (r.clone(), built.paths.get(&i).cloned())).collect();
    let mut gone = Gone::default();
    let mut ids: Vec<u32> = built.recs.iter().map(|r| r.fdid).collect();
    ids.sort_unstable();
    ids.dedup();
    for id in &ids {
        match rng.below(8) {
            0 => {
                if rb.remove_file(FileDataId::new(*id)) {
                    for (r, p) in recs2.iter().filter(|(r, _)| r.fdid == *id) {
                        gone.hashes.extend(r.hash);
                        gone.paths.extend(p.clone());
                    }
                    recs2.retain(|(r, _)| r.fdid != *id);
                    gone.ids.push(*id);
                }
            }
            1 => {
                let nk: [u8; 16] = if rng.bool() { rng.array::<16>() } else { *rng.pick(&probe_ckeys) };
                if rb.update_file(FileDataId::new(*id), ContentKey::from_bytes(nk)) > 0 {
                    for (r, _) in recs2.iter_mut().filter(|(r, _)| r.fdid == *id) {
                        r.ckey = nk;
                    }
                }
            }
            _ => {}
        }
    }
    // a removed path whose hash is still carried by a surviving record is not gone
    let live_hashes: std::collections::BTreeSet<u64> = recs2.iter().filter_map(|(r, _)| r.hash).collect();
    gone.paths.retain(|p| !live_hashes.contains(&cascette_formats::root::calculate_name_hash(p)));
    let mut eb = EncodingBuilder::from_encoding_file(&enc0);
    let mut enc2 = enc_model.clone();
    for ck in enc_model.keys() {
        match rng.below(8) {
            0 => {
                if eb.remove_ckey_entry(&ContentKey::from_bytes(*ck)) {
                    enc2.remove(ck);
                    gone.ckeys.push(*ck);
                }
            }
            1 => {
                if eb.remove_ckey_entry(&ContentKey::from_bytes(*ck)) {
                    let nv = (size40(&mut rng), vec![nonzero16(&mut rng), nonzero16(&mut rng)]);
                    eb.add_ckey_entry(CKeyEntryData { content_key: ContentKey::from_bytes(*ck), file_size: nv.0, encoding_keys: nv.1.iter().copied().map(EncodingKey::from_bytes).collect() });
                    enc2.insert(*ck, nv);
                }
            }
            _ => {}
        }
    }
    if recs2.is_empty() || enc2.is_empty() {
        t.o("resolver.ext.reload_skipped_empty", 1);
        return;
    }
    let (Ok(root_bytes), Ok(enc_bytes2)) = (rb.build(), eb.build().and_then(|f| f.build())) else {
        t.o("resolver.ext.reload_builder_refused", 1);
        return;
    };
    let recs3: Vec<Rec> = recs2.iter().map(|(r, _)| r.clone()).collect();
    let paths3: BTreeMap<usize, String> = recs2.iter().enumerate().filter_map(|(i, (_, p))| p.clone().map(|p| (i, p))).collect();
    let info2: Value = json!({"base": info, "records": recs3.len(), "removed_ids": gone.ids.len(), "removed_ckeys": gone.ckeys.len(), "ckeys_in_encoding": enc2.len()});
    // the V2 header-layout ambiguity of 16..99-file manifests is judged by the root family
    let named3 = recs3.iter().filter(|r| r.hash.is_some()).count();
    if version == cascette_formats::root::RootVersion::V2 && (16..100).contains(&recs3.len()) && (1..=4).contains(&named3) {
        t.o("resolver.ext.reload_skipped_listed_ambiguity", 1);
        return;
    }
    if let Err(e) = resolver.load_root_file(&root_bytes) {
        viol(ctx, case, "C03|resolver|after-reload|load_root_file|fails-on-built-manifest", "ContentResolver cannot load a manifest rebuilt by an edited RootBuilder", json!({"error": e.to_string(), "info": info2}));
        return;
    }
    if let Err(e) = resolver.load_encoding_file(&enc_bytes2) {
        viol(ctx, case, "C03|resolver|after-reload|load_encoding_file|fails-on-built-table", "ContentResolver cannot load a table rebuilt by an edited EncodingBuilder", json!({"error": e.to_string(), "info": info2}));
        return;
    }
    t.o("resolver.ext.reloads", 1);
    t.o("resolver.ext.reload_removed_ids", gone.ids.len() as u64);
    t.o("resolver.ext.reload_removed_ckeys", gone.ckeys.len() as u64);
    battery(ctx, case, t, &mut rng, &resolver, &recs3, &paths3, &enc2, &probe_ckeys, &gone, &style, "after-reload|", &info2);
}

/// Every `RES_EXT_EVERY`-th chain case also runs the cache-clearing and reload stages.
const RES_EXT_EVERY: u64 = 2;

fn nonzero16(rng: &mut vh::Rng) -> [u8; 16] {
    let mut k = rng.array::<16>();
    k[0] |= 1;
    k
}

/// Keys that were removed by an edit and must no longer resolve.
#[derive(Default)]
struct Gone {
    ids: Vec<u32>,
    hashes: Vec<u64>,
    paths: Vec<String>,
    ckeys: Vec<[u8; 16]>,
}

/// Every resolver lookup for every inserted id / content key / path plus negative probes, against the models.
#[allow(clippy::too_many_arguments, clippy::too_many_lines)]
fn battery(ctx: &Ctx, case: &Case, t: &mut Tally, rng: &mut vh::Rng, resolver: &ContentResolver, recs: &[Rec], paths: &BTreeMap<usize, String>, enc_model: &BTreeMap<[u8; 16], (u64, Vec<[u8; 16]>)>, probe_ckeys: &[[u8; 16]], gone: &Gone, style: &str, ph: &str, info: &Value) {
    let mut by_fdid: BTreeMap<u32, Vec<&Rec>> = BTreeMap::new();
    let mut by_hash: BTreeMap<u64, Vec<&Rec>> = BTreeMap::new();
    for r in recs {
        by_fdid.entry(r.fdid).or_default().push(r);
        if let Some(h) = r.hash {
            by_hash.entry(h).or_default().push(r);
        }
    }
    let mut lookups = 0u64;
    let ekey_of = |ck: &[u8; 16]| enc_model.get(ck).map(|(_, e)| e[0]);
    // FileDataID chain
    for (fdid, recs) in &by_fdid {
        let got = resolver.resolve_file_data_id(*fdid).map(|k| *k.as_bytes());
        lookups += 1;
        let ok = got.is_some_and(|k| recs.iter().any(|r| r.ckey == k));
        if !ok {
            viol(ctx, case, &format!("C03|resolver|{ph}resolve_file_data_id|inserted-id-not-resolved"), "resolve_file_data_id does not return a content key inserted for the id", json!({"fdid": fdid, "got": got.map(hex::encode), "info": info}));
            continue;
        }
        let ck = got.unwrap_or_default();
        let got_e = resolver.resolve_fdid_to_encoding(*fdid).map(|k| *k.as_bytes());
        lookups += 1;
        // any entry of the id may be picked; the encoding key must belong to one of them
        let acceptable: Vec<Option<[u8; 16]>> = recs.iter().map(|r| ekey_of(&r.ckey)).collect();
        if !acceptable.contains(&got_e) {
            viol(ctx, case, &format!("C03|resolver|{ph}resolve_fdid_to_encoding|!=chain-of-inserted-values"), "FileDataID -> CKey -> EKey chain differs from the inserted mappings", json!({"fdid": fdid, "ckey": hex::encode(ck), "got": got_e.map(hex::encode), "acceptable": acceptable.iter().map(|o| o.map(hex::encode)).collect::<Vec<_>>(), "info": info}));
        }
    }
    // content key -> encoding key, sizes
    for ck in probe_ckeys {
        let got = resolver.resolve_content_key(&ContentKey::from_bytes(*ck)).map(|k| *k.as_bytes());
        lookups += 1;
        if got != ekey_of(ck) {
            let rel = if got.is_none() { "inserted-key-not-found" } else if ekey_of(ck).is_none() { "absent-key-found" } else { "wrong-value" };
            viol(ctx, case, &format!("C03|resolver|{ph}resolve_content_key|{rel}"), "resolve_content_key differs from the inserted CKey -> EKey mapping", json!({"ckey": hex::encode(ck), "got": got.map(hex::encode), "expected": ekey_of(ck).map(hex::encode), "info": info}));
        }
        let gs = resolver.get_content_size(&ContentKey::from_bytes(*ck));
        lookups += 1;
        if gs != enc_model.get(ck).map(|(s, _)| *s) {
            viol(ctx, case, &format!("C03|resolver|{ph}get_content_size|!=inserted"), "get_content_size differs from the inserted size", json!({"ckey": hex::encode(ck), "got": gs, "expected": enc_model.get(ck).map(|(s, _)| *s), "info": info}));
        }
    }
    // path chain: the very string given to RootBuilder::add_file
    for (ri, path) in paths {
        let rec = &recs[*ri];
        let cands = rec.hash.and_then(|h| by_hash.get(&h)).cloned().unwrap_or_default();
        let got = resolver.resolve_path(path).map(|k| *k.as_bytes());
        lookups += 1;
        let ok = got.is_some_and(|k| cands.iter().any(|r| r.ckey == k));
        if !ok {
            let rel = if got.is_none() { "inserted-path-not-found" } else { "wrong-value" };
            viol(ctx, case, &format!("C03|resolver|{ph}resolve_path|{rel}|path-style={style}"), "a path inserted through RootBuilder::add_file does not resolve through ContentResolver::resolve_path", json!({"path": path, "got": got.map(hex::encode), "expected_any_of": cands.iter().map(|r| hex::encode(r.ckey)).collect::<Vec<_>>(), "info": info}));
            continue;
        }
        let got_e = resolver.resolve_path_to_encoding(path).map(|k| *k.as_bytes());
        lookups += 1;
        let acceptable: Vec<Option<[u8; 16]>> = cands.iter().map(|r| ekey_of(&r.ckey)).collect();
        if !acceptable.contains(&got_e) {
            viol(ctx, case, &format!("C03|resolver|{ph}resolve_path_to_encoding|!=chain-of-inserted-values|path-style={style}"), "path -> CKey -> EKey chain differs from the inserted mappings", json!({"path": path, "got": got_e.map(hex::encode), "info": info}));
        }
        let fi = resolver.get_file_info(path);
        lookups += 1;
        let fi_ok = match &fi {
            None => acceptable.iter().all(Option::is_none) || acceptable.contains(&None),
            Some(f) => cands.iter().any(|r| r.ckey == *f.content_key.as_bytes() && ekey_of(&r.ckey) == Some(*f.encoding_key.as_bytes()) && enc_model.get(&r.ckey).map(|(s, _)| *s) == Some(f.size)),
        };
        if !fi_ok {
            viol(ctx, case, &format!("C03|resolver|{ph}get_file_info|!=chain-of-inserted-values|path-style={style}"), "get_file_info differs from the inserted mappings", json!({"path": path, "got": fi.map(|f| json!({"ckey": f.content_key.to_hex(), "ekey": f.encoding_key.to_hex(), "size": f.size})), "info": info}));
        }
    }
    // negative probes
    let mut neg = 0u64;
    for r in recs.iter().take(150) {
        for id in [r.fdid.wrapping_add(1), r.fdid.wrapping_sub(1)] {
            if !by_fdid.contains_key(&id) {
                neg += 1;
                if let Some(k) = resolver.resolve_file_data_id(id) {
                    viol(ctx, case, &format!("C03|resolver|{ph}resolve_file_data_id|absent-id-resolves"), "an id that was not inserted resolves", json!({"fdid": id, "got": k.to_hex(), "info": info}));
                }
            }
        }
    }
    for (_, path) in paths.iter().take(150) {
        for variant in [format!("{path}.bak"), format!("x{path}")] {
            neg += 1;
            let h = cascette_formats::root::calculate_name_hash(&variant);
            if by_hash.contains_key(&h) {
                continue;
            }
            if let Some(k) = resolver.resolve_path(&variant) {
                viol(ctx, case, &format!("C03|resolver|{ph}resolve_path|absent-path-resolves"), "a path that was not inserted resolves", json!({"path": variant, "got": k.to_hex(), "info": info}));
            }
        }
    }
    for _ in 0..32 {
        let k = rng.array::<16>();
        neg += 1;
        if !enc_model.contains_key(&k) && resolver.resolve_content_key(&ContentKey::from_bytes(k)).is_some() {
            viol(ctx, case, &format!("C03|resolver|{ph}resolve_content_key|absent-key-found"), "a content key that was not inserted resolves", json!({"ckey": hex::encode(k), "info": info}));
        }
    }
    // keys removed by an edit
    for id in &gone.ids {
        neg += 1;
        if let Some(k) = resolver.resolve_file_data_id(*id) {
            viol(ctx, case, &format!("C03|resolver|{ph}resolve_file_data_id|removed-id-resolves"), "a FileDataID removed from the manifest still resolves after the edited manifest was loaded", json!({"fdid": id, "got": k.to_hex(), "info": info}));
        }
    }
    for p in &gone.paths {
        neg += 1;
        if let Some(k) = resolver.resolve_path(p) {
            viol(ctx, case, &format!("C03|resolver|{ph}resolve_path|removed-path-resolves"), "a path whose file was removed from the manifest still resolves after the edited manifest was loaded", json!({"path": p, "got": k.to_hex(), "info": info}));
        }
    }
    for ck in &gone.ckeys {
        neg += 1;
        if !enc_model.contains_key(ck) && (resolver.resolve_content_key(&ContentKey::from_bytes(*ck)).is_some() || resolver.get_content_size(&ContentKey::from_bytes(*ck)).is_some()) {
            viol(ctx, case, &format!("C03|resolver|{ph}resolve_content_key|removed-key-found"), "a content key removed from the encoding table still resolves after the edited table was loaded", json!({"ckey": hex::encode(ck), "info": info}));
        }
    }
    t.o("resolver.lookups", lookups + neg);
    t.o("resolver.negative_probes", neg);
    if !ph.is_empty() {
        t.o(&format!("resolver.{}lookups", ph.replace('|', ".")), lookups + neg);
    }
}
