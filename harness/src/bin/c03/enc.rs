//! Encoding table: EncodingBuilder -> build -> parse -> find_* / batch_find_* vs model and linear scan.

use crate::common::{Case, Tally, be_dec, be_inc, err_class, gen_keyset, k16, key_class, size40, viol};
use cascette_crypto::{ContentKey, EncodingKey};
use cascette_formats::CascFormat;
use cascette_formats::encoding::{CKeyEntryData, EKeyEntryData, EncodingBuilder, EncodingFile};
use serde_json::json;
use std::collections::BTreeMap;
use vh::{Ctx, Rng};

const ESPECS: &[&str] = &[
    "z",
    "n",
    "b:{256K*=z}",
    "b:{1M*=z,*=n}",
    "z:{9,mpq}",
    "b:{22=n,4096=z,*=z:{6,mpq}}",
    "e:{0123456789ABCDEF,06FC152E,z}",
    "b:{16K*=z:{6,mpq},*=n}",
];

pub fn cases(quick: bool) -> Vec<Case> {
    let mut v = Vec::new();
    let mut idx = 0u64;
    let mut push = |p: serde_json::Value| {
        v.push(Case::new("encoding", idx, p));
        idx += 1;
    };
    let reps = if quick { 40 } else { 200 };
    let max_m = if quick { 3 } else { 4 };
    for rep in 0..reps {
        for ck in 1..=4usize {
            for k in 1..=4usize {
                let cap = ck * 1024 / (22 + 16 * k);
                for m in 1..=max_m {
                    for d in [-1i64, 0, 1] {
                        let n = (m * cap) as i64 + d;
                        let ek = (ck + k + rep) % 4 + 1;
                        let cap_e = ek * 1024 / 25;
                        // number of EKey entries: the next EKey-page boundary above the referenced keys, -1/0/+1
                        let referenced = n as usize * k;
                        let me = referenced / cap_e + 1;
                        let de = (m as i64 + d + k as i64 + rep as i64).rem_euclid(3) - 1;
                        let ne = (me * cap_e) as i64 + de;
                        push(json!({"mode":"uniform","ck_kb":ck,"ek_kb":ek,"k":k,"n":n,"ne_target":ne,"trailing": (m + k) % 2 == 0}));
                    }
                }
            }
        }
    }
    let mixed = if quick { 3000 } else { 20000 };
    for i in 0..mixed {
        push(json!({"mode":"mixed","ck_kb": i % 4 + 1,"ek_kb": (i / 4) % 4 + 1,"k":0,"n": 0,"ne_target":0,"trailing": i % 3 == 0}));
    }
    for n in [0usize, 1, 2, 3] {
        for ck in [1usize, 4] {
            push(json!({"mode":"uniform","ck_kb":ck,"ek_kb":ck,"k":1 + n % 4,"n":n,"ne_target":0,"trailing": false}));
        }
    }
    v
}

type K = [u8; 16];

struct Model {
    c: BTreeMap<K, (u64, Vec<K>)>,
    e: BTreeMap<K, (String, u64)>,
}

pub fn run(ctx: &Ctx, case: &Case, t: &mut Tally) {
    let mut rng = case.rng(ctx);
    let mode = case.s("mode").to_string();
    let ck_kb = case.u("ck_kb") as u16;
    let ek_kb = case.u("ek_kb") as u16;
    let n = if mode == "mixed" { rng.urange(1, 400) } else { case.u("n") };
    let ckeys = gen_keyset(&mut rng, n, 16);
    let ks: Vec<usize> = (0..ckeys.len())
        .map(|_| {
            if mode == "mixed" {
                if rng.chance(1, 10) { rng.urange(5, 12) } else { rng.urange(1, 4) }
            } else {
                case.u("k").max(1)
            }
        })
        .collect();
    let referenced: usize = ks.iter().sum();
    let ne_target = if mode == "mixed" { referenced + rng.urange(0, 50) } else { case.u("ne_target") };
    let total_e = referenced.max(ne_target);
    let ekeys = gen_keyset(&mut rng, total_e, 16);
    let n_specs = rng.urange(1, ESPECS.len().min(6));
    let spec_off = rng.usize_below(ESPECS.len());
    let specs: Vec<&str> = (0..n_specs).map(|i| ESPECS[(spec_off + i) % ESPECS.len()]).collect();

    let mut model = Model { c: BTreeMap::new(), e: BTreeMap::new() };
    let mut c_entries: Vec<CKeyEntryData> = Vec::new();
    let mut pos = 0usize;
    for (ckey, &k) in ckeys.iter().zip(&ks) {
        let eks: Vec<K> = ekeys[pos..pos + k].iter().map(|e| k16(e)).collect();
        pos += k;
        let size = size40(&mut rng);
        model.c.insert(k16(ckey), (size, eks.clone()));
        c_entries.push(CKeyEntryData {
            content_key: ContentKey::from_bytes(k16(ckey)),
            file_size: size,
            encoding_keys: eks.into_iter().map(EncodingKey::from_bytes).collect(),
        });
    }
    let mut e_entries: Vec<EKeyEntryData> = Vec::new();
    for ek in &ekeys {
        let spec = (*rng.pick(&specs)).to_string();
        let size = size40(&mut rng);
        model.e.insert(k16(ek), (spec.clone(), size));
        e_entries.push(EKeyEntryData { encoding_key: EncodingKey::from_bytes(k16(ek)), espec: spec, file_size: size });
    }
    rng.shuffle(&mut c_entries);
    rng.shuffle(&mut e_entries);
    // cause class used when the parsed table differs: all-zero EKey stored with ESpec index 0 looks like padding
    let zero_ekey_espec0 = e_entries.first().is_some_and(|first| model.e.get(&[0u8; 16]).is_some_and(|(s, _)| *s == first.espec));

    let mut builder = EncodingBuilder::new().with_page_sizes(ck_kb, ek_kb);
    if case.b("trailing") {
        builder = builder.with_trailing_espec("b:{22=n,*=z}".to_string());
    }
    for e in c_entries {
        builder.add_ckey_entry(e);
    }
    for e in e_entries {
        builder.add_ekey_entry(e);
    }
    t.o("encoding.structures", 1);
    let built = match builder.build() {
        Ok(f) => f,
        Err(_) => {
            t.o("encoding.builder_refused", 1);
            return;
        }
    };
    let bytes = match built.build() {
        Ok(b) => b,
        Err(_) => {
            t.o("encoding.serialise_refused", 1);
            return;
        }
    };
    let pages = (built.ckey_pages.len(), built.ekey_pages.len());
    t.o("encoding.ckey_pages", pages.0 as u64);
    t.o("encoding.ekey_pages", pages.1 as u64);
    if pages.0 >= 2 || pages.1 >= 2 || mode == "uniform" {
        ctx.eval_nontrivial(case.hash());
    } else {
        ctx.eval();
    }
    let size_info = json!({"ckeys": model.c.len(), "ekeys": model.e.len(), "ckey_pages": pages.0, "ekey_pages": pages.1, "bytes": bytes.len()});
    let parsed = match EncodingFile::parse(&bytes) {
        Ok(p) => p,
        Err(e) => {
            if model.c.is_empty() {
                // nothing was inserted: the parser (like Agent.exe) refuses a table with zero pages
                t.o("encoding.empty_table_rejected_by_parser", 1);
                return;
            }
            viol(
                ctx,
                case,
                &format!("C03|encoding|built-output-misparsed|{}", if zero_ekey_espec0 { "all-00-ekey+espec-index-0".to_string() } else { format!("parse-error:{}", err_class(&e)) }),
                "EncodingFile::parse rejects the serialised output of EncodingBuilder",
                json!({"error": e.to_string(), "sizes": size_info}),
            );
            return;
        }
    };

    let v = verify(ctx, case, t, &mut rng, &parsed, &model, "", zero_ekey_espec0, &size_info);
    if v.ckeys && v.ekeys && case.idx % EXT_EVERY == 0 {
        extend(ctx, case, t, &mut rng, &parsed, model, &specs);
    }
}

struct Verified {
    ckeys: bool,
    ekeys: bool,
}

/// Level 1 (linear scan == model) and level 2 (every lookup flavour vs model) on one parsed table. `ph` is the
/// path that produced the table: "" for builder -> build -> parse, otherwise e.g. "after-edit|".
#[allow(clippy::too_many_arguments)]
fn verify(ctx: &Ctx, case: &Case, t: &mut Tally, rng: &mut Rng, parsed: &EncodingFile, model: &Model, ph: &str, zero_ekey_espec0: bool, size_info: &serde_json::Value) -> Verified {
    // ---- level 1: linear scan of the parsed entries == what was inserted
    let mut scan_c: BTreeMap<K, Vec<(u64, Vec<K>)>> = BTreeMap::new();
    for page in &parsed.ckey_pages {
        for e in &page.entries {
            scan_c.entry(*e.content_key.as_bytes()).or_default().push((e.file_size, e.encoding_keys.iter().map(|k| *k.as_bytes()).collect()));
        }
    }
    let mut scan_e: BTreeMap<K, Vec<(Option<String>, u64)>> = BTreeMap::new();
    for page in &parsed.ekey_pages {
        for e in &page.entries {
            scan_e.entry(*e.encoding_key.as_bytes()).or_default().push((parsed.espec_table.get(e.espec_index).map(str::to_string), e.file_size));
        }
    }
    let diff_c = diff_maps(&model.c, &scan_c, |m, s| s.len() == 1 && s[0].0 == m.0 && s[0].1 == m.1);
    if let Some((cause, key)) = diff_c {
        viol(
            ctx,
            case,
            &format!("C03|encoding|{ph}built-output-misparsed|ckey-table|{cause}"),
            "CKey entries of the parsed encoding table differ from what was inserted",
            json!({"key": hex::encode(key), "inserted": model.c.get(&key).map(|(s, e)| json!({"size": s, "ekeys": e.iter().map(hex::encode).collect::<Vec<_>>()})), "parsed": scan_c.get(&key).map(|v| v.iter().map(|(s, e)| json!({"size": s, "ekeys": e.iter().map(hex::encode).collect::<Vec<_>>()})).collect::<Vec<_>>()), "sizes": size_info}),
        );
        return Verified { ckeys: false, ekeys: false };
    }
    let mut ekey_table_ok = true;
    let diff_e = diff_maps(&model.e, &scan_e, |m, s| s.len() == 1 && s[0].0.as_deref() == Some(m.0.as_str()) && s[0].1 == m.1);
    if let Some((cause, key)) = diff_e {
        // the listed format ambiguity keeps one signature whatever path produced the table
        let sig = if zero_ekey_espec0 { "C03|encoding|built-output-misparsed|ekey-table|all-00-ekey+espec-index-0".to_string() } else { format!("C03|encoding|{ph}built-output-misparsed|ekey-table|{cause}") };
        viol(
            ctx,
            case,
            &sig,
            "EKey entries of the parsed encoding table differ from what was inserted",
            json!({"key": hex::encode(key), "inserted": model.e.get(&key).map(|(s, z)| json!({"espec": s, "size": z})), "parsed": scan_e.get(&key).map(|v| v.iter().map(|(s, z)| json!({"espec": s, "size": z})).collect::<Vec<_>>()), "sizes": size_info}),
        );
        // the CKey table is independent of this: keep probing it
        ekey_table_ok = false;
    }

    // ---- level 2: every lookup flavour on inserted keys and negative probes
    let c_probes = probes(rng, model.c.keys().copied().collect(), model.e.keys().copied().take(16).collect());
    let mut lookups = 0u64;
    let mut singles: Vec<Option<K>> = Vec::with_capacity(c_probes.len());
    let mut singles_all: Vec<Vec<K>> = Vec::with_capacity(c_probes.len());
    for p in &c_probes {
        let ck = ContentKey::from_bytes(*p);
        let expect = model.c.get(p);
        let got = parsed.find_encoding(&ck).map(|e| *e.as_bytes());
        let exp1 = expect.map(|(_, eks)| eks[0]);
        lookups += 1;
        if got != exp1 {
            let rel = relation(exp1.is_some(), got.is_some());
            viol(ctx, case, &format!("C03|encoding|{ph}find_encoding|{rel}|key={}", key_class(p)), "find_encoding disagrees with the inserted mapping and the linear scan", json!({"key": hex::encode(p), "expected": exp1.map(hex::encode), "got": got.map(hex::encode), "sizes": size_info}));
        }
        let got_all: Vec<K> = parsed.find_all_encodings(&ck).iter().map(|e| *e.as_bytes()).collect();
        lookups += 1;
        let mut a = got_all.clone();
        a.sort_unstable();
        let mut b: Vec<K> = expect.map(|(_, e)| e.clone()).unwrap_or_default();
        b.sort_unstable();
        if a != b {
            let rel = relation(!b.is_empty(), !a.is_empty());
            viol(ctx, case, &format!("C03|encoding|{ph}find_all_encodings|{rel}|key={}", key_class(p)), "find_all_encodings disagrees with the inserted mapping and the linear scan", json!({"key": hex::encode(p), "expected": b.iter().map(hex::encode).collect::<Vec<_>>(), "got": a.iter().map(hex::encode).collect::<Vec<_>>(), "sizes": size_info}));
        }
        singles.push(got);
        singles_all.push(got_all);
    }
    let batch_keys: Vec<ContentKey> = c_probes.iter().map(|p| ContentKey::from_bytes(*p)).collect();
    let b1: Vec<Option<K>> = parsed.batch_find_encodings(&batch_keys).iter().map(|o| o.map(|e| *e.as_bytes())).collect();
    lookups += batch_keys.len() as u64;
    if b1 != singles {
        let i = b1.iter().zip(&singles).position(|(a, b)| a != b).unwrap_or(b1.len().min(singles.len()));
        viol(ctx, case, &format!("C03|encoding|{ph}batch_find_encodings|batch!=single"), "batch_find_encodings differs element-wise from find_encoding", json!({"index": i, "key": c_probes.get(i).map(hex::encode), "batch": b1.get(i).and_then(|o| o.map(hex::encode)), "single": singles.get(i).and_then(|o| o.map(hex::encode)), "batch_len": b1.len(), "single_len": singles.len(), "sizes": size_info}));
    }
    let b2: Vec<Vec<K>> = parsed.batch_find_all_encodings(&batch_keys).iter().map(|v| v.iter().map(|e| *e.as_bytes()).collect()).collect();
    lookups += batch_keys.len() as u64;
    if b2 != singles_all {
        let i = b2.iter().zip(&singles_all).position(|(a, b)| a != b).unwrap_or(0);
        viol(ctx, case, &format!("C03|encoding|{ph}batch_find_all_encodings|batch!=single"), "batch_find_all_encodings differs element-wise from find_all_encodings", json!({"index": i, "key": c_probes.get(i).map(hex::encode), "sizes": size_info}));
    }
    if batch_keys.is_empty() {
        t.o("encoding.empty_batches", 1);
    }
    // a batch that ends before the last page (only the smallest keys) and the empty batch
    let mut low: Vec<K> = model.c.keys().copied().take(3).collect();
    low.push([0u8; 16]);
    let low_keys: Vec<ContentKey> = low.iter().map(|k| ContentKey::from_bytes(*k)).collect();
    let low_single: Vec<Option<K>> = low_keys.iter().map(|k| parsed.find_encoding(k).map(|e| *e.as_bytes())).collect();
    let low_batch: Vec<Option<K>> = parsed.batch_find_encodings(&low_keys).iter().map(|o| o.map(|e| *e.as_bytes())).collect();
    let low_all_single: Vec<Vec<K>> = low_keys.iter().map(|k| parsed.find_all_encodings(k).iter().map(|e| *e.as_bytes()).collect()).collect();
    let low_all_batch: Vec<Vec<K>> = parsed.batch_find_all_encodings(&low_keys).iter().map(|v| v.iter().map(|e| *e.as_bytes()).collect()).collect();
    lookups += 4 * low_keys.len() as u64;
    if low_batch != low_single || !parsed.batch_find_encodings(&[]).is_empty() {
        viol(ctx, case, &format!("C03|encoding|{ph}batch_find_encodings|batch!=single"), "batch_find_encodings differs element-wise from find_encoding", json!({"batch": "smallest keys only / empty", "keys": low.iter().map(hex::encode).collect::<Vec<_>>(), "sizes": size_info}));
    }
    if low_all_batch != low_all_single || !parsed.batch_find_all_encodings(&[]).is_empty() {
        viol(ctx, case, &format!("C03|encoding|{ph}batch_find_all_encodings|batch!=single"), "batch_find_all_encodings differs element-wise from find_all_encodings", json!({"batch": "smallest keys only / empty", "keys": low.iter().map(hex::encode).collect::<Vec<_>>(), "sizes": size_info}));
    }

    let e_probes = if ekey_table_ok { probes(rng, model.e.keys().copied().collect(), model.c.keys().copied().take(16).collect()) } else { Vec::new() };
    if !ekey_table_ok {
        t.o("encoding.ekey_lookups_skipped_after_misparse", 1);
    }
    let mut e_singles: Vec<Option<String>> = Vec::with_capacity(e_probes.len());
    for p in &e_probes {
        let ek = EncodingKey::from_bytes(*p);
        let expect = model.e.get(p).map(|(s, _)| s.clone());
        let got = parsed.find_espec(&ek).map(str::to_string);
        lookups += 1;
        if got != expect {
            let rel = relation(expect.is_some(), got.is_some());
            viol(ctx, case, &format!("C03|encoding|{ph}find_espec|{rel}|key={}", key_class(p)), "find_espec disagrees with the inserted mapping and the linear scan", json!({"key": hex::encode(p), "expected": expect, "got": got, "sizes": size_info}));
        }
        e_singles.push(got);
    }
    let e_batch: Vec<EncodingKey> = e_probes.iter().map(|p| EncodingKey::from_bytes(*p)).collect();
    let b3: Vec<Option<String>> = parsed.batch_find_especs(&e_batch).iter().map(|o| o.map(str::to_string)).collect();
    lookups += e_batch.len() as u64;
    if ekey_table_ok {
        let low_e: Vec<EncodingKey> = model.e.keys().copied().take(3).map(EncodingKey::from_bytes).collect();
        let s1: Vec<Option<String>> = low_e.iter().map(|k| parsed.find_espec(k).map(str::to_string)).collect();
        let b1: Vec<Option<String>> = parsed.batch_find_especs(&low_e).iter().map(|o| o.map(str::to_string)).collect();
        lookups += 2 * low_e.len() as u64;
        if s1 != b1 || !parsed.batch_find_especs(&[]).is_empty() {
            viol(ctx, case, &format!("C03|encoding|{ph}batch_find_especs|batch!=single"), "batch_find_especs differs element-wise from find_espec", json!({"batch": "smallest keys only / empty", "sizes": size_info}));
        }
    }
    if b3 != e_singles {
        let i = b3.iter().zip(&e_singles).position(|(a, b)| a != b).unwrap_or(0);
        viol(ctx, case, &format!("C03|encoding|{ph}batch_find_especs|batch!=single"), "batch_find_especs differs element-wise from find_espec", json!({"index": i, "key": e_probes.get(i).map(hex::encode), "batch": b3.get(i), "single": e_singles.get(i), "sizes": size_info}));
    }
    t.o("encoding.lookups", lookups);
    if ph.is_empty() {
        t.o("encoding.ckeys_inserted", model.c.len() as u64);
        t.o("encoding.ekeys_inserted", model.e.len() as u64);
    } else {
        t.o(&format!("encoding.{}lookups", ph.replace('|', ".")), lookups);
    }
    if ph.is_empty() && ctx.want_sample() && parsed.ckey_pages.len() >= 2 {
        ctx.sample(json!({"family":"encoding","params":case.params,"sizes":size_info,"probes":c_probes.len() + e_probes.len()}));
    }
    Verified { ckeys: true, ekeys: ekey_table_ok }
}

/// Every `EXT_EVERY`-th structure also goes through the editing operations and the alternative entry points.
const EXT_EVERY: u64 = 3;

fn new_ckey_value(rng: &mut Rng) -> (u64, Vec<K>) {
    let k = if rng.chance(1, 10) { rng.urange(5, 12) } else { rng.urange(1, 4) };
    (size40(rng), (0..k).map(|_| rng.array::<16>()).collect())
}

fn ckey_data(key: &K, v: &(u64, Vec<K>)) -> CKeyEntryData {
    CKeyEntryData { content_key: ContentKey::from_bytes(*key), file_size: v.0, encoding_keys: v.1.iter().copied().map(EncodingKey::from_bytes).collect() }
}

fn ekey_data(key: &K, v: &(String, u64)) -> EKeyEntryData {
    EKeyEntryData { encoding_key: EncodingKey::from_bytes(*key), espec: v.0.clone(), file_size: v.1 }
}

/// A key next to / far from the present ones that is not in `present`.
fn fresh_key<V>(rng: &mut Rng, present: &BTreeMap<K, V>) -> K {
    for _ in 0..64 {
        let cand: K = match rng.below(4) {
            0 | 1 if !present.is_empty() => {
                let keys: Vec<&K> = present.keys().collect();
                let base = **rng.pick(&keys);
                let nb = if rng.bool() { be_inc(&base) } else { be_dec(&base) };
                nb.map_or_else(|| rng.array::<16>(), |v| k16(&v))
            }
            2 => {
                let mut k = [0u8; 16];
                k[15] = rng.urange(1, 255) as u8;
                k
            }
            _ => rng.array::<16>(),
        };
        if !present.contains_key(&cand) {
            return cand;
        }
    }
    rng.array::<16>()
}

/// Coverage-driven extension: `EncodingBuilder::from_encoding_file` + editing operations (`remove_*_entry`,
/// re-insertion with a new value, additions, `clear`, `has_*_entry`, `*_count`) followed by build -> serialise ->
/// parse through one of the three entry-point pairs (`build`/`parse`, `build_blte`/`parse_blte`, `CascFormat`), then
/// the same two verification levels against the edited model: removed keys must be gone, replaced keys must resolve
/// to the new value, untouched keys must be unchanged.
#[allow(clippy::too_many_lines)]
fn extend(ctx: &Ctx, case: &Case, t: &mut Tally, rng: &mut Rng, parsed: &EncodingFile, mut model: Model, specs: &[&str]) {
    let sel = case.idx / EXT_EVERY;
    let path = sel % 3;
    let start = (sel / 3) % 4; // 0,1: from_encoding_file; 2: from_encoding_file + clear + re-add; 3: default() + re-add
    let ph = match path {
        0 => "after-edit|",
        1 => "after-edit+blte|",
        _ => "after-edit+CascFormat|",
    };
    let bviol = |api: &str, rel: &str, witness: serde_json::Value| {
        viol(ctx, case, &format!("C03|encoding|EncodingBuilder::{api}|{rel}"), "an editing operation of EncodingBuilder disagrees with the model of what the builder holds", witness);
    };
    // builder order of the EKey entries (decides which ESpec string gets table index 0)
    let mut order: Vec<K>;
    let mut b = EncodingBuilder::from_encoding_file(parsed);
    t.o("encoding.edit.from_encoding_file", 1);
    if b.ckey_count() != model.c.len() || b.ekey_count() != model.e.len() {
        bviol("from_encoding_file", "entry-count!=parsed-table", json!({"ckey_count": b.ckey_count(), "ekey_count": b.ekey_count(), "expected": [model.c.len(), model.e.len()]}));
        return;
    }
    order = model.e.keys().copied().collect();
    if start >= 2 {
        if start == 2 {
            b.clear();
            t.o("encoding.edit.clear", 1);
            let leftover = model.c.keys().take(8).any(|k| b.has_ckey_entry(&ContentKey::from_bytes(*k))) || model.e.keys().take(8).any(|k| b.has_ekey_entry(&EncodingKey::from_bytes(*k)));
            if b.ckey_count() != 0 || b.ekey_count() != 0 || leftover {
                bviol("clear", "entries-left", json!({"ckey_count": b.ckey_count(), "ekey_count": b.ekey_count()}));
                return;
            }
        } else {
            b = EncodingBuilder::default().with_page_sizes(parsed.header.ckey_page_size_kb, parsed.header.ekey_page_size_kb);
            t.o("encoding.edit.default", 1);
        }
        let mut ck: Vec<K> = model.c.keys().copied().collect();
        rng.shuffle(&mut ck);
        for k in &ck {
            b.add_ckey_entry(ckey_data(k, &model.c[k]));
        }
        rng.shuffle(&mut order);
        for k in &order {
            b.add_ekey_entry(ekey_data(k, &model.e[k]));
        }
    }
    // presence queries before the edits
    let mut n_q = 0u64;
    let c_keys: Vec<K> = model.c.keys().copied().collect();
    let e_keys: Vec<K> = model.e.keys().copied().collect();
    for k in c_keys.iter().step_by((c_keys.len() / 40).max(1)) {
        n_q += 2;
        if !b.has_ckey_entry(&ContentKey::from_bytes(*k)) {
            bviol("has_ckey_entry", "false-for-present-key", json!({"key": hex::encode(k)}));
        }
        let absent = fresh_key(rng, &model.c);
        if b.has_ckey_entry(&ContentKey::from_bytes(absent)) {
            bviol("has_ckey_entry", "true-for-absent-key", json!({"key": hex::encode(absent)}));
        }
    }
    for k in e_keys.iter().step_by((e_keys.len() / 40).max(1)) {
        n_q += 2;
        if !b.has_ekey_entry(&EncodingKey::from_bytes(*k)) {
            bviol("has_ekey_entry", "false-for-present-key", json!({"key": hex::encode(k)}));
        }
        let absent = fresh_key(rng, &model.e);
        if b.has_ekey_entry(&EncodingKey::from_bytes(absent)) {
            bviol("has_ekey_entry", "true-for-absent-key", json!({"key": hex::encode(absent)}));
        }
    }
    // ---- removals (first / last key of the table, a random share), absent keys must report false
    let mut removed_c: Vec<K> = Vec::new();
    let mut removed_e: Vec<K> = Vec::new();
    let share = [0u64, 8, 4, 2][rng.usize_below(4)];
    let pick_removals = |rng: &mut Rng, keys: &[K]| -> Vec<K> {
        let mut v: Vec<K> = Vec::new();
        if share == 0 || keys.is_empty() {
            return v;
        }
        if rng.bool() {
            v.push(keys[0]);
        }
        if rng.bool() {
            v.push(keys[keys.len() - 1]);
        }
        for k in keys {
            if rng.chance(1, share) {
                v.push(*k);
            }
        }
        v.sort_unstable();
        v.dedup();
        rng.shuffle(&mut v);
        v
    };
    for k in pick_removals(rng, &c_keys) {
        let r = b.remove_ckey_entry(&ContentKey::from_bytes(k));
        model.c.remove(&k);
        removed_c.push(k);
        if !r {
            bviol("remove_ckey_entry", "returns-false-for-present-key", json!({"key": hex::encode(k)}));
        }
    }
    for k in pick_removals(rng, &e_keys) {
        let r = b.remove_ekey_entry(&EncodingKey::from_bytes(k));
        model.e.remove(&k);
        order.retain(|o| *o != k);
        removed_e.push(k);
        if !r {
            bviol("remove_ekey_entry", "returns-false-for-present-key", json!({"key": hex::encode(k)}));
        }
    }
    for _ in 0..4 {
        let a = fresh_key(rng, &model.c);
        if b.remove_ckey_entry(&ContentKey::from_bytes(a)) {
            bviol("remove_ckey_entry", "returns-true-for-absent-key", json!({"key": hex::encode(a)}));
        }
        let a = fresh_key(rng, &model.e);
        if b.remove_ekey_entry(&EncodingKey::from_bytes(a)) {
            bviol("remove_ekey_entry", "returns-true-for-absent-key", json!({"key": hex::encode(a)}));
        }
    }
    // a removed key is removed again: nothing is left to remove
    if let Some(k) = removed_c.first() {
        if b.remove_ckey_entry(&ContentKey::from_bytes(*k)) {
            bviol("remove_ckey_entry", "returns-true-for-absent-key", json!({"key": hex::encode(k), "note": "second removal of the same key"}));
        }
    }
    // ---- replacements: remove + add with a new value
    let mut replaced = 0u64;
    let survivors_c: Vec<K> = model.c.keys().copied().collect();
    for k in &survivors_c {
        if rng.chance(1, 8) {
            let nv = new_ckey_value(rng);
            if !b.remove_ckey_entry(&ContentKey::from_bytes(*k)) {
                bviol("remove_ckey_entry", "returns-false-for-present-key", json!({"key": hex::encode(k)}));
            }
            b.add_ckey_entry(ckey_data(k, &nv));
            model.c.insert(*k, nv);
            replaced += 1;
        }
    }
    let mut spec_pool: Vec<String> = specs.iter().map(|s| (*s).to_string()).collect();
    spec_pool.push("b:{1K*=n}".to_string()); // a string the original ESpec table may not hold
    let survivors_e: Vec<K> = model.e.keys().copied().collect();
    for k in &survivors_e {
        if rng.chance(1, 8) {
            let nv = (rng.pick(&spec_pool).clone(), size40(rng));
            if !b.remove_ekey_entry(&EncodingKey::from_bytes(*k)) {
                bviol("remove_ekey_entry", "returns-false-for-present-key", json!({"key": hex::encode(k)}));
            }
            order.retain(|o| o != k);
            b.add_ekey_entry(ekey_data(k, &nv));
            order.push(*k);
            model.e.insert(*k, nv);
            replaced += 1;
        }
    }
    // ---- additions (neighbours of present keys, small keys, random keys); sometimes a removed key comes back
    let adds_c = match rng.below(4) {
        0 => 0,
        1 => rng.urange(1, 3),
        2 => rng.urange(4, 40),
        _ => rng.urange(40, 120),
    };
    for i in 0..adds_c {
        let k = if i == 0 && !removed_c.is_empty() && rng.bool() { removed_c[0] } else { fresh_key(rng, &model.c) };
        if model.c.contains_key(&k) {
            continue;
        }
        let nv = new_ckey_value(rng);
        b.add_ckey_entry(ckey_data(&k, &nv));
        model.c.insert(k, nv);
    }
    let adds_e = match rng.below(4) {
        0 => 0,
        1 => rng.urange(1, 3),
        2 => rng.urange(4, 40),
        _ => rng.urange(40, 200),
    };
    for i in 0..adds_e {
        let k = if i == 0 && !removed_e.is_empty() && rng.bool() { removed_e[0] } else { fresh_key(rng, &model.e) };
        if model.e.contains_key(&k) {
            continue;
        }
        let nv = (rng.pick(&spec_pool).clone(), size40(rng));
        b.add_ekey_entry(ekey_data(&k, &nv));
        order.push(k);
        model.e.insert(k, nv);
    }
    // ---- the builder must hold exactly the edited model
    if b.ckey_count() != model.c.len() || b.ekey_count() != model.e.len() {
        bviol("ckey_count/ekey_count", "!=model-after-edits", json!({"ckey_count": b.ckey_count(), "ekey_count": b.ekey_count(), "expected": [model.c.len(), model.e.len()]}));
    }
    for k in removed_c.iter().take(40) {
        n_q += 1;
        if b.has_ckey_entry(&ContentKey::from_bytes(*k)) != model.c.contains_key(k) {
            bviol("has_ckey_entry", "!=model-after-remove", json!({"key": hex::encode(k), "in_model": model.c.contains_key(k)}));
        }
    }
    for k in removed_e.iter().take(40) {
        n_q += 1;
        if b.has_ekey_entry(&EncodingKey::from_bytes(*k)) != model.e.contains_key(k) {
            bviol("has_ekey_entry", "!=model-after-remove", json!({"key": hex::encode(k), "in_model": model.e.contains_key(k)}));
        }
    }
    t.o("encoding.edit.presence_queries", n_q);
    t.o("encoding.edit.removed", (removed_c.len() + removed_e.len()) as u64);
    t.o("encoding.edit.replaced", replaced);
    t.o("encoding.edit.added", (adds_c + adds_e) as u64);
    if rng.chance(1, 3) {
        b = b.with_trailing_espec(EncodingBuilder::generate_trailing_espec(parsed));
        t.o("encoding.edit.generated_trailing_espec", 1);
    }
    let zero_ekey_espec0 = order.first().is_some_and(|first| model.e.get(&[0u8; 16]).is_some_and(|(s, _)| *s == model.e[first].0));
    let built = match b.build() {
        Ok(f) => f,
        Err(_) => {
            t.o("encoding.edit.builder_refused", 1);
            return;
        }
    };
    // ---- serialise and parse through one of the entry-point pairs
    let reparsed: Result<EncodingFile, String> = match path {
        0 => built.build().map_err(|e| format!("build:{}", err_class(&e))).and_then(|bytes| EncodingFile::parse(&bytes).map_err(|e| format!("parse-error:{}", err_class(&e)))),
        1 => built.build_blte().map_err(|e| format!("build:{}", err_class(&e))).and_then(|bytes| EncodingFile::parse_blte(&bytes).map_err(|e| format!("parse-error:{}", err_class(&e)))),
        _ => <EncodingFile as CascFormat>::build(&built).map_err(|_| "build:Err".to_string()).and_then(|bytes| <EncodingFile as CascFormat>::parse(&bytes).map_err(|_| "parse-error:Err".to_string())),
    };
    t.o(&format!("encoding.edit.path.{}", ["build+parse", "build_blte+parse_blte", "CascFormat"][path as usize]), 1);
    let size_info = json!({"ckeys": model.c.len(), "ekeys": model.e.len(), "ckey_pages": built.ckey_pages.len(), "ekey_pages": built.ekey_pages.len(), "removed": removed_c.len() + removed_e.len(), "replaced": replaced, "start": start});
    let reparsed = match reparsed {
        Ok(p) => p,
        Err(cls) if cls.starts_with("build:") => {
            t.o("encoding.edit.serialise_refused", 1);
            return;
        }
        Err(cls) => {
            if model.c.is_empty() {
                t.o("encoding.empty_table_rejected_by_parser", 1);
                return;
            }
            if model.e.is_empty() {
                // same class: edits on an initially empty table added content keys only, the EKey page table has zero
                // pages, and the parser (like Agent.exe) refuses a page table with zero pages (seen at 2 of 25 seeds)
                t.o("encoding.table_without_ekey_pages_rejected_by_parser", 1);
                return;
            }
            viol(ctx, case, &format!("C03|encoding|{ph}built-output-misparsed|parse-error"), "the parser rejects the serialised output of an edited EncodingBuilder", json!({"error_class": cls, "sizes": size_info}));
            return;
        }
    };
    t.o("encoding.edit.structures", 1);
    if reparsed.ckey_count() != model.c.len() || (reparsed.ekey_count() != model.e.len() && !zero_ekey_espec0) {
        viol(ctx, case, &format!("C03|encoding|{ph}ckey_count/ekey_count|!=inserted"), "entry counts of the parsed table differ from the number of inserted mappings", json!({"ckey_count": reparsed.ckey_count(), "ekey_count": reparsed.ekey_count(), "sizes": size_info}));
    }
    let v = verify(ctx, case, t, rng, &reparsed, &model, ph, zero_ekey_espec0, &size_info);
    if v.ckeys {
        // removed keys must be gone (they are also ordinary negative probes of the model, asked explicitly here)
        let mut gone = 0u64;
        for k in &removed_c {
            if !model.c.contains_key(k) {
                gone += 1;
                if reparsed.find_encoding(&ContentKey::from_bytes(*k)).is_some() || !reparsed.find_all_encodings(&ContentKey::from_bytes(*k)).is_empty() {
                    viol(ctx, case, &format!("C03|encoding|{ph}find_encoding|removed-key-found"), "a content key removed with remove_ckey_entry still resolves after rebuild", json!({"key": hex::encode(k), "sizes": size_info}));
                }
            }
        }
        if v.ekeys {
            for k in &removed_e {
                if !model.e.contains_key(k) {
                    gone += 1;
                    if reparsed.find_espec(&EncodingKey::from_bytes(*k)).is_some() {
                        viol(ctx, case, &format!("C03|encoding|{ph}find_espec|removed-key-found"), "an encoding key removed with remove_ekey_entry still resolves after rebuild", json!({"key": hex::encode(k), "sizes": size_info}));
                    }
                }
            }
        }
        t.o("encoding.edit.removed_key_probes", gone);
    }
}

fn relation(expected_some: bool, got_some: bool) -> &'static str {
    match (expected_some, got_some) {
        (true, false) => "inserted-key-not-found",
        (false, true) => "absent-key-found",
        _ => "wrong-value",
    }
}

/// First difference between the model and the scanned entries: (cause, key).
fn diff_maps<V, S>(model: &BTreeMap<K, V>, scan: &BTreeMap<K, S>, same: impl Fn(&V, &S) -> bool) -> Option<(String, K)> {
    for (k, v) in model {
        match scan.get(k) {
            None => return Some((format!("missing-key:{}", key_class(k)), *k)),
            Some(s) if !same(v, s) => return Some((format!("value-differs:{}", key_class(k)), *k)),
            _ => {}
        }
    }
    scan.keys().find(|k| !model.contains_key(*k)).map(|k| (format!("extra-key:{}", key_class(k)), *k))
}

/// Inserted keys + negative probes (neighbours, truncated key, extremes, random, keys of the other table),
/// shuffled, with a few duplicates.
fn probes(rng: &mut Rng, inserted: Vec<K>, foreign: Vec<K>) -> Vec<K> {
    let mut v: Vec<K> = inserted.clone();
    let stride = (inserted.len() / 300).max(1);
    for k in inserted.iter().step_by(stride) {
        if let Some(x) = be_inc(k) {
            v.push(k16(&x));
        }
        if let Some(x) = be_dec(k) {
            v.push(k16(&x));
        }
        let mut tr = [0u8; 16];
        tr[..9].copy_from_slice(&k[..9]);
        v.push(tr);
        let mut ext = *k;
        ext[15] ^= 0x80;
        v.push(ext);
    }
    // first/last keys always get their neighbours
    if let (Some(lo), Some(hi)) = (inserted.iter().min(), inserted.iter().max()) {
        if let Some(x) = be_dec(lo) {
            v.push(k16(&x));
        }
        if let Some(x) = be_inc(hi) {
            v.push(k16(&x));
        }
    }
    v.push([0u8; 16]);
    v.push([0xff; 16]);
    for _ in 0..24 {
        v.push(rng.array::<16>());
    }
    v.extend(foreign);
    for _ in 0..8.min(inserted.len()) {
        v.push(*rng.pick(&inserted));
    }
    rng.shuffle(&mut v);
    v
}
