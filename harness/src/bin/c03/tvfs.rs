//! TVFS manifest: TvfsBuilder -> bytes -> TvfsFile::parse -> resolve_path vs model, vs the flattened file list
//! (linear scan) and vs a walk of the prefix tree with offset-addressed table reads.

use crate::common::{Case, Tally, err_class, viol};
use cascette_formats::CascFormat;
use cascette_formats::blte::{BlteFile, CompressionMode};
use cascette_formats::tvfs::{ContainerEntry, ContainerFileTable, PathTreeNode, TVFS_FLAG_ENCODING_SPEC, TVFS_FLAG_INCLUDE_CKEY, TVFS_FLAG_PATCH_SUPPORT, TvfsBuilder, TvfsFile, VfsTable};
use serde_json::{Value, json};
use std::collections::{BTreeMap, BTreeSet};
use vh::{Ctx, Rng};

pub fn cases(quick: bool) -> Vec<Case> {
    let mut v = Vec::new();
    let mut idx = 0u64;
    let mut push = |p: Value| {
        v.push(Case::new("tvfs", idx, p));
        idx += 1;
    };
    let ck = TVFS_FLAG_INCLUDE_CKEY;
    let est = TVFS_FLAG_ENCODING_SPEC;
    let pat = TVFS_FLAG_PATCH_SUPPORT;
    let flag_sets = [ck, 0, ck | est, ck | pat, ck | est | pat, est];
    let reps = if quick { 30 } else { 120 };
    for _ in 0..reps {
        for shape in ["single", "flat", "deep", "shared", "mixed"] {
            for (fi, &flags) in flag_sets.iter().enumerate() {
                // sizes around the container-table offset-width thresholds (22-byte entries: 11/12 files cross 0xFF)
                let sizes: &[usize] = match shape {
                    "single" => &[1],
                    "deep" => &[1, 7, 40],
                    _ => &[2, 10, 11, 12, 13, 64, 300],
                };
                for &n in sizes {
                    if quick && fi >= 2 && n > 64 {
                        continue;
                    }
                    push(json!({"shape":shape,"flags":flags,"n":n,"est_specs": if flags & est != 0 { 3 } else { 0 },"est_spec_len":10,"long_name":0}));
                }
            }
        }
    }
    // path components at the fragment-length limit
    for ln in [1usize, 100, 254, 255, 256, 300, 600] {
        push(json!({"shape":"flat","flags":ck,"n":5,"est_specs":0,"est_spec_len":0,"long_name":ln}));
    }
    // encoding-spec table larger than one offset byte can address
    for (cnt, len) in [(20usize, 11usize), (22, 11), (26, 9), (40, 20)] {
        push(json!({"shape":"shared","flags":ck | est,"n":30,"est_specs":cnt,"est_spec_len":len,"long_name":0}));
    }
    // container table above 0xFFFF bytes (3-byte offsets); with patch support the entry size depends on that width
    let big: &[(u32, usize)] = if quick { &[(ck, 2979), (ck | pat, 2800)] } else { &[(ck, 2978), (ck, 2979), (ck, 2980), (ck | pat, 2730), (ck | pat, 2731), (ck | pat, 2800), (ck | pat, 2850), (0, 5100)] };
    for &(flags, n) in big {
        push(json!({"shape":"shared","flags":flags,"n":n,"est_specs":0,"est_spec_len":0,"long_name":0}));
    }
    v
}

#[derive(Clone, Debug, PartialEq, Eq)]
struct FileVal {
    ekey: Vec<u8>,
    encoded_size: u32,
    content_size: u32,
    ckey9: Option<Vec<u8>>,
    est_index: Option<u32>,
}

const DIRS: [&str; 10] = ["data", "data2", "database", "dat", "interface", "interface_retail", "sound", "sounds", "données", "文件夹"];
const STEMS: [&str; 8] = ["file", "file_", "fil", "texture", "texture_hd", "a", "файл", "model"];

fn file_name(rng: &mut Rng, i: usize) -> String {
    format!("{}{:04}.{}", rng.pick(&STEMS), i, rng.pick(&["dat", "blp", "m2", "txt"]))
}

fn gen_paths(rng: &mut Rng, shape: &str, n: usize, long_name: usize) -> Vec<String> {
    let mut set: BTreeSet<String> = BTreeSet::new();
    let mut i = 0usize;
    while set.len() < n {
        i += 1;
        let p = match shape {
            "single" => {
                if rng.bool() { "a.x".to_string() } else { format!("{}/{}/{}", rng.pick(&DIRS), rng.pick(&DIRS), file_name(rng, i)) }
            }
            "flat" => file_name(rng, i),
            "deep" => {
                let depth = rng.urange(1, 60);
                let mut s = String::new();
                for d in 0..depth {
                    s.push_str(&format!("d{}/", d % 7));
                }
                s.push_str(&file_name(rng, i));
                s
            }
            "shared" => format!("{}/{}/{}", rng.pick(&DIRS), rng.pick(&DIRS[..4]), file_name(rng, i)),
            _ => {
                let depth = rng.urange(0, 5);
                let mut s = String::new();
                for _ in 0..depth {
                    s.push_str(*rng.pick(&DIRS[..]));
                    s.push('/');
                }
                s.push_str(&file_name(rng, i));
                s
            }
        };
        set.insert(p);
    }
    let mut v: Vec<String> = set.into_iter().collect();
    if long_name > 0 && !v.is_empty() {
        // one file and one directory component of exactly `long_name` bytes (dir names have no '.', file names do)
        let stem = "n".repeat(long_name.saturating_sub(2));
        let fname = if long_name >= 3 { format!("{stem}.z") } else { "q".repeat(long_name) };
        v[0] = fname;
        if v.len() > 1 {
            v[1] = format!("{}/inner.dat", "D".repeat(long_name));
        }
    }
    rng.shuffle(&mut v);
    v
}

fn walk<'a>(root: &'a PathTreeNode, path: &str) -> Option<u32> {
    let mut node = root;
    let comps: Vec<&str> = path.split('/').collect();
    if path.is_empty() {
        return None;
    }
    for (i, c) in comps.iter().enumerate() {
        let last = i + 1 == comps.len();
        // several children may share a name (file and folder); prefer the kind we need
        let next = node.children.iter().find(|ch| ch.name == *c && (ch.vfs_offset.is_some() == last))?;
        node = next;
    }
    node.vfs_offset
}

fn entry_val(e: &ContainerEntry, span_len: u32) -> FileVal {
    FileVal { ekey: e.ekey.clone(), encoded_size: e.encoded_size, content_size: span_len, ckey9: e.content_key.clone(), est_index: e.est_index }
}

pub fn run(ctx: &Ctx, case: &Case, t: &mut Tally) {
    let mut rng = case.rng(ctx);
    let shape = case.s("shape").to_string();
    let flags = case.u("flags") as u32;
    let n = case.u("n");
    let long_name = case.u("long_name");
    let est_specs = case.u("est_specs");
    let est_len = case.u("est_spec_len").max(1);
    let paths = gen_paths(&mut rng, &shape, n, long_name);
    let mut builder = if flags == TVFS_FLAG_INCLUDE_CKEY && case.idx % 2 == 1 { TvfsBuilder::new() } else { TvfsBuilder::with_flags(flags) };
    let mut est_bytes = 0usize;
    for i in 0..est_specs {
        let mut s = format!("b:{{{i}K*=z}}");
        while s.len() < est_len {
            s.push('n');
        }
        est_bytes += s.len() + 1;
        builder.add_est_spec(s);
    }
    let mut model: BTreeMap<String, FileVal> = BTreeMap::new();
    for p in &paths {
        let ekey: [u8; 9] = match rng.below(10) {
            0 => [0u8; 9],
            1 => [0xff; 9],
            _ => rng.array::<9>(),
        };
        let ckey: [u8; 16] = rng.array::<16>();
        let enc = match rng.below(5) {
            0 => 0,
            1 => u32::MAX,
            _ => rng.next_u32(),
        };
        let cs = match rng.below(5) {
            0 => 0,
            1 => u32::MAX,
            _ => rng.next_u32(),
        };
        let has_ckey_flag = flags & TVFS_FLAG_INCLUDE_CKEY != 0;
        let has_est_flag = flags & TVFS_FLAG_ENCODING_SPEC != 0;
        let est_index = if has_est_flag && est_specs > 0 { Some(rng.below(est_specs as u64) as u32) } else { None };
        match est_index {
            Some(ix) => builder.add_file_with_est(p.clone(), ekey, enc, cs, Some(ckey), ix),
            None => builder.add_file(p.clone(), ekey, enc, cs, Some(ckey)),
        }
        model.insert(
            p.clone(),
            FileVal { ekey: ekey.to_vec(), encoded_size: enc, content_size: cs, ckey9: if has_ckey_flag { Some(ckey[..9].to_vec()) } else { None }, est_index: if has_est_flag { Some(est_index.unwrap_or(0)) } else { None } },
        );
    }
    t.o("tvfs.structures", 1);
    let bytes = match builder.build() {
        Ok(b) => b,
        Err(_) => {
            t.o("tvfs.builder_refused", 1);
            return;
        }
    };
    if n >= 2 {
        ctx.eval_nontrivial(case.hash());
    } else {
        ctx.eval();
    }
    let cause = if long_name >= 255 {
        "path-component>=255-bytes".to_string()
    } else if est_bytes > 255 {
        "est-table>255-bytes".to_string()
    } else if flags & TVFS_FLAG_PATCH_SUPPORT != 0 && n > 2700 {
        "patch-support+cft>64KiB".to_string()
    } else {
        format!("flags={flags:#x}|shape={shape}")
    };
    let info = json!({"files": n, "flags": flags, "bytes": bytes.len(), "shape": shape, "est_specs": est_specs});
    let parsed = match TvfsFile::parse(&bytes) {
        Ok(p) => p,
        Err(e) => {
            viol(ctx, case, &format!("C03|tvfs|built-output-misparsed|{cause}"), "TvfsFile::parse rejects the output of TvfsBuilder", json!({"error": e.to_string(), "error_class": err_class(&e), "info": info}));
            return;
        }
    };
    if !verify_tvfs(ctx, case, t, &mut rng, &parsed, &model, &paths, &cause, "", &info) {
        return;
    }
    t.o("tvfs.files_inserted", n as u64);
    t.o(&format!("tvfs.shape.{shape}"), 1);
    t.o(&format!("tvfs.flags.{flags:#x}"), 1);
    if ctx.want_sample() && n >= 10 && shape == "shared" {
        ctx.sample(json!({"family":"tvfs","params":case.params,"info":info,"example_path":paths[0]}));
    }
    if case.idx % TVFS_EXT_EVERY == 0 {
        extend_tvfs(ctx, case, t, &mut rng, &bytes, &parsed, &model, &paths, &cause, &info);
    }
}

/// Every `TVFS_EXT_EVERY`-th manifest is also loaded through the alternative entry points.
const TVFS_EXT_EVERY: u64 = 2;

/// Coverage-driven extension: the same manifest through `TvfsFile::load_from_blte` (BLTE container written by the
/// repository's BLTE encoder: raw / zlib / LZ4, one or several chunks), through the `CascFormat` parse/build/parse
/// chain and through `TvfsFile::build` of the parsed manifest; every one must resolve exactly the inserted paths.
#[allow(clippy::too_many_arguments)]
fn extend_tvfs(ctx: &Ctx, case: &Case, t: &mut Tally, rng: &mut Rng, bytes: &[u8], parsed: &TvfsFile, model: &BTreeMap<String, FileVal>, paths: &[String], cause: &str, info: &Value) {
    let sel = (case.idx / TVFS_EXT_EVERY) % 3;
    let (ph, r): (&str, Result<TvfsFile, String>) = match sel {
        0 => {
            let mode = match rng.below(3) {
                0 => CompressionMode::None,
                1 => CompressionMode::ZLib,
                _ => CompressionMode::LZ4,
            };
            let chunk = match rng.below(3) {
                0 => bytes.len().max(1),
                1 => (bytes.len() / 3).max(1),
                _ => rng.urange(16, 4096),
            };
            let blte = BlteFile::compress(bytes, chunk, mode).map_err(|e| format!("blte-encode:{e}")).and_then(|b| <BlteFile as CascFormat>::build(&b).map_err(|e| format!("blte-encode:{e}")));
            t.o(&format!("tvfs.ext.load_from_blte.{mode:?}"), 1);
            // the container itself is C01's subject: only containers the independent decoder reads back are used
            let blte = blte.and_then(|b| match vh::refimpl::blte::decode(&b, &|_| None) {
                Ok(d) if d.content() == bytes => Ok(b),
                _ => Err("blte-encode:container does not decode to the manifest with the reference decoder".to_string()),
            });
            ("load_from_blte|", blte.and_then(|b| TvfsFile::load_from_blte(&b).map_err(|e| format!("{}", err_class(&e)))))
        }
        1 => {
            t.o("tvfs.ext.casc_format_roundtrips", 1);
            ("CascFormat|", <TvfsFile as CascFormat>::parse(bytes).and_then(|p| <TvfsFile as CascFormat>::build(&p)).and_then(|b| <TvfsFile as CascFormat>::parse(&b)).map_err(|e| e.to_string()))
        }
        _ => {
            t.o("tvfs.ext.rebuilds", 1);
            ("TvfsFile::build|", parsed.build().map_err(|e| err_class(&e)).and_then(|b| TvfsFile::parse(&b).map_err(|e| err_class(&e))))
        }
    };
    match r {
        Ok(p) => {
            verify_tvfs(ctx, case, t, rng, &p, model, paths, cause, ph, info);
        }
        Err(e) if e.starts_with("blte-encode:") => t.o("tvfs.ext.blte_encoder_refused", 1),
        Err(e) => viol(ctx, case, &format!("C03|tvfs|{ph}built-output-misparsed|{cause}"), "an alternative load / re-serialisation path rejects a TvfsBuilder-produced manifest", json!({"error": e, "info": info})),
    }
}

/// Level 1 (flattened file list == inserted) and level 2 (resolve_path, tree walk with offset-addressed reads,
/// enumerate_files vs the model) on one parsed manifest; `ph` names the path that produced it.
#[allow(clippy::too_many_arguments)]
fn verify_tvfs(ctx: &Ctx, case: &Case, t: &mut Tally, rng: &mut Rng, parsed: &TvfsFile, model: &BTreeMap<String, FileVal>, paths: &[String], cause: &str, ph: &str, info: &Value) -> bool {
    // level 1: flattened file list (linear scan) == inserted
    let mut scan: BTreeMap<String, Vec<Option<FileVal>>> = BTreeMap::new();
    for f in &parsed.path_table.files {
        let val = parsed.vfs_table.entries.iter().find(|e| e.offset == f.vfs_offset).and_then(|ve| ve.spans.first()).and_then(|sp| parsed.container_table.entries.iter().find(|c| c.offset == sp.cft_offset).map(|c| entry_val(c, sp.span_length)));
        scan.entry(f.path.clone()).or_default().push(val);
    }
    let same = scan.len() == model.len() && model.iter().all(|(p, v)| scan.get(p).is_some_and(|s| s.len() == 1 && s[0].as_ref() == Some(v)));
    if !same {
        let first = model.iter().find(|(p, v)| scan.get(*p).is_none_or(|s| s.len() != 1 || s[0].as_ref() != Some(*v))).map(|(p, _)| p.clone());
        let extra = scan.keys().find(|p| !model.contains_key(*p)).cloned();
        viol(ctx, case, &format!("C03|tvfs|{ph}built-output-misparsed|{cause}"), "files of the parsed TVFS manifest differ from what was inserted", json!({"first_differing_path": first.as_ref().map(|p| vh::hex_short(p.as_bytes(), 40)), "inserted": first.as_ref().and_then(|p| model.get(p)).map(|v| format!("{v:?}")), "parsed": first.as_ref().and_then(|p| scan.get(p)).map(|v| format!("{v:?}")), "extra_path": extra.map(|p| vh::hex_short(p.as_bytes(), 40)), "parsed_files": parsed.path_table.files.len(), "info": info}));
        return false;
    }
    // level 2
    let mut probes: Vec<String> = paths.to_vec();
    let stride = (paths.len() / 300).max(1);
    for p in paths.iter().step_by(stride) {
        let comps: Vec<&str> = p.split('/').collect();
        for d in 1..comps.len() {
            probes.push(comps[..d].join("/"));
        }
        probes.push(format!("{p}/x"));
        probes.push(format!("/{p}"));
        probes.push(format!("{p}/"));
        probes.push(p.to_uppercase());
        let mut chars: Vec<char> = p.chars().collect();
        if let Some(c) = chars.last_mut() {
            *c = if *c == 'q' { 'r' } else { 'q' };
        }
        probes.push(chars.iter().collect());
        if let Some((i, _)) = p.char_indices().last() {
            probes.push(p[..i].to_string());
        }
    }
    probes.push(String::new());
    probes.push("/".to_string());
    probes.push("nonexistent.file".to_string());
    rng.shuffle(&mut probes);
    let mut lookups = 0u64;
    for p in &probes {
        let expect = model.get(p);
        let got_entry = parsed.resolve_path(p);
        lookups += 1;
        // content size lives in the VFS span: fetch it through the offset-addressed readers
        let tree_val: Option<FileVal> = walk(&parsed.path_table.root, p).and_then(|off| VfsTable::read_entry_at(&parsed.vfs_table.data, off as usize, &parsed.header).ok()).and_then(|ve| ve.spans.first().cloned()).and_then(|sp| ContainerFileTable::read_entry_at(&parsed.container_table.data, sp.cft_offset as usize, &parsed.header).ok().map(|c| entry_val(&c, sp.span_length)));
        lookups += 1;
        let got = got_entry.map(|c| entry_val(c, expect.map_or(0, |v| v.content_size)));
        if got.as_ref() != expect {
            let rel = match (expect.is_some(), got.is_some()) {
                (true, false) => "inserted-path-not-found",
                (false, true) => "absent-path-found",
                _ => "wrong-value",
            };
            viol(ctx, case, &format!("C03|tvfs|{ph}resolve_path|{rel}|{cause}"), "resolve_path disagrees with the inserted files", json!({"path": vh::hex_short(p.as_bytes(), 60), "expected": expect.map(|v| format!("{v:?}")), "got": got.map(|v| format!("{v:?}")), "info": info}));
        }
        if tree_val.as_ref() != expect {
            let rel = match (expect.is_some(), tree_val.is_some()) {
                (true, false) => "inserted-path-not-found",
                (false, true) => "absent-path-found",
                _ => "wrong-value",
            };
            viol(ctx, case, &format!("C03|tvfs|{ph}tree-walk+read_entry_at|{rel}|{cause}"), "prefix-tree walk with offset-addressed VFS/CFT reads disagrees with the inserted files", json!({"path": vh::hex_short(p.as_bytes(), 60), "expected": expect.map(|v| format!("{v:?}")), "got": tree_val.map(|v| format!("{v:?}")), "info": info}));
        }
    }
    let enumerated = parsed.enumerate_files().filter(|(_, ve)| ve.is_some()).count();
    if enumerated != model.len() || parsed.path_table.file_count() != model.len() {
        viol(ctx, case, &format!("C03|tvfs|{ph}enumerate_files|count!=inserted|{cause}"), "enumerate_files yields a different number of resolvable files", json!({"expected": model.len(), "got": enumerated, "file_count": parsed.path_table.file_count(), "info": info}));
    }
    t.o("tvfs.lookups", lookups);
    if !ph.is_empty() {
        t.o(&format!("tvfs.{}lookups", ph.replace('|', ".")), lookups);
    }
    true
}
