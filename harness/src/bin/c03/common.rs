//! Shared pieces of the C03 check: case description, tallies, key generators.

use serde_json::{Value, json};
use std::cell::RefCell;
use std::collections::{BTreeMap, BTreeSet};
use vh::{Ctx, Rng, fnv64, mix64};

/// One generated structure (build -> serialise -> parse -> probe).
#[derive(Clone, Debug)]
pub struct Case {
    pub family: &'static str,
    pub idx: u64,
    pub params: Value,
}

impl Case {
    pub fn new(family: &'static str, idx: u64, params: Value) -> Self {
        Self { family, idx, params }
    }
    pub fn rng(&self, ctx: &Ctx) -> Rng {
        ctx.rng(mix64(fnv64(self.family.as_bytes()), self.idx))
    }
    pub fn to_json(&self) -> Value {
        json!({"family": self.family, "idx": self.idx, "params": self.params})
    }
    pub fn u(&self, k: &str) -> usize {
        self.params.get(k).and_then(Value::as_u64).unwrap_or(0) as usize
    }
    pub fn s(&self, k: &str) -> &str {
        self.params.get(k).and_then(Value::as_str).unwrap_or("")
    }
    pub fn b(&self, k: &str) -> bool {
        self.params.get(k).and_then(Value::as_bool).unwrap_or(false)
    }
    pub fn hash(&self) -> u64 {
        mix64(fnv64(self.family.as_bytes()), mix64(self.idx, fnv64(self.params.to_string().as_bytes())))
    }
}

pub fn family_static(name: &str) -> Option<&'static str> {
    ["encoding", "archive_index", "archive_group", "root", "tvfs", "resolver"].into_iter().find(|f| *f == name)
}

/// Per-thread counters, flushed into the Ctx after every case.
#[derive(Default)]
pub struct Tally {
    pub obs: BTreeMap<String, u64>,
}

impl Tally {
    pub fn o(&mut self, k: &str, n: u64) {
        *self.obs.entry(k.to_string()).or_insert(0) += n;
    }
    pub fn flush(&mut self, ctx: &Ctx) {
        for (k, v) in std::mem::take(&mut self.obs) {
            ctx.obs(&k, v);
        }
    }
}

pub fn viol(ctx: &Ctx, case: &Case, sig: &str, summary: &str, witness: Value) {
    ctx.violation(sig, summary, json!({"case": case.to_json(), "witness": witness}));
}

pub fn key_class(k: &[u8]) -> &'static str {
    if k.is_empty() {
        "empty"
    } else if k.iter().all(|&b| b == 0) {
        "all-00"
    } else if k.iter().all(|&b| b == 0xff) {
        "all-ff"
    } else {
        "other"
    }
}

/// Big-endian +1 (None on overflow).
pub fn be_inc(k: &[u8]) -> Option<Vec<u8>> {
    let mut v = k.to_vec();
    for b in v.iter_mut().rev() {
        if *b == 0xff {
            *b = 0;
        } else {
            *b += 1;
            return Some(v);
        }
    }
    None
}

/// Big-endian -1 (None on underflow).
pub fn be_dec(k: &[u8]) -> Option<Vec<u8>> {
    let mut v = k.to_vec();
    for b in v.iter_mut().rev() {
        if *b == 0 {
            *b = 0xff;
        } else {
            *b -= 1;
            return Some(v);
        }
    }
    None
}

pub fn k16(v: &[u8]) -> [u8; 16] {
    let mut a = [0u8; 16];
    let n = v.len().min(16);
    a[..n].copy_from_slice(&v[..n]);
    a
}

/// `n` distinct keys of `width` bytes (fewer when the key space is smaller),
/// in random order. Styles: random, long shared prefix, consecutive runs
/// (key+-1 neighbours present), clusters at both ends of the key space;
/// all-00 / all-FF keys are included with probability 1/2 each.
pub fn gen_keyset(rng: &mut Rng, n: usize, width: usize) -> Vec<Vec<u8>> {
    let max_unique: usize = if width >= 4 { usize::MAX } else { 1usize << (8 * width) };
    let n = n.min(max_unique);
    let mut set: BTreeSet<Vec<u8>> = BTreeSet::new();
    if n == 0 || width == 0 {
        return Vec::new();
    }
    if width <= 2 && n * 2 > max_unique {
        // dense: enumerate the space
        let mut all: Vec<Vec<u8>> = (0..max_unique)
            .map(|i| {
                let b = (i as u32).to_be_bytes();
                b[4 - width..].to_vec()
            })
            .collect();
        rng.shuffle(&mut all);
        all.truncate(n);
        return all;
    }
    if rng.bool() {
        set.insert(vec![0u8; width]);
    }
    if n >= 2 && rng.bool() {
        set.insert(vec![0xffu8; width]);
    }
    let style = rng.below(4);
    // tail width so that 256^t comfortably exceeds n
    let mut t = 1usize;
    while t < width && (1u64 << (8 * t as u32).min(62)) < (n as u64).saturating_mul(8) {
        t += 1;
    }
    let prefix = rng.bytes(width - t);
    let mut attempts = 0usize;
    let mut run_left = 0usize;
    let mut run_cur: Vec<u8> = Vec::new();
    while set.len() < n {
        attempts += 1;
        let effective = if attempts > n * 20 + 1000 { 0 } else { style };
        let key = match effective {
            1 => {
                let mut k = prefix.clone();
                k.extend(rng.bytes(t));
                k
            }
            2 => {
                if run_left == 0 {
                    run_cur = rng.bytes(width);
                    // sometimes make the run cross a byte carry
                    if width >= 2 && rng.chance(1, 3) {
                        run_cur[width - 1] = 0xf0 + (rng.below(16) as u8);
                    }
                    run_left = rng.urange(1, 48);
                } else {
                    run_cur = be_inc(&run_cur).unwrap_or_else(|| vec![0u8; width]);
                }
                run_left -= 1;
                run_cur.clone()
            }
            3 => {
                let mut k = if rng.bool() { vec![0u8; width] } else { vec![0xffu8; width] };
                let tail = rng.bytes(t);
                k[width - t..].copy_from_slice(&tail);
                k
            }
            _ => rng.bytes(width),
        };
        set.insert(key);
    }
    let mut v: Vec<Vec<u8>> = set.into_iter().collect();
    rng.shuffle(&mut v);
    v
}

/// 40-bit sizes biased to boundaries.
pub fn size40(rng: &mut Rng) -> u64 {
    match rng.below(8) {
        0 => 0,
        1 => 1,
        2 => u64::from(u32::MAX),
        3 => 1u64 << 32,
        4 => (1u64 << 40) - 1,
        _ => rng.below(1u64 << 40),
    }
}

pub fn size32_nonzero(rng: &mut Rng) -> u32 {
    match rng.below(6) {
        0 => 1,
        1 => u32::MAX,
        _ => (rng.next_u32()).max(1),
    }
}

thread_local! {
    pub static LAST_PANIC: RefCell<Option<String>> = const { RefCell::new(None) };
}

/// Silent panic hook that remembers message and file (no line numbers) per thread.
pub fn install_panic_hook() {
    std::panic::set_hook(Box::new(|info| {
        let msg = if let Some(s) = info.payload().downcast_ref::<&str>() {
            (*s).to_string()
        } else if let Some(s) = info.payload().downcast_ref::<String>() {
            s.clone()
        } else {
            "non-string panic".to_string()
        };
        let file = info.location().map_or("?", |l| l.file()).to_string();
        let file = file.rsplit("/crates/").next().unwrap_or(&file).to_string();
        // strip digits so the text is stable across witnesses
        let msg: String = msg.chars().filter(|c| !c.is_ascii_digit()).take(80).collect();
        LAST_PANIC.with(|p| *p.borrow_mut() = Some(format!("{file}:{msg}")));
    }));
}

pub fn take_panic() -> String {
    LAST_PANIC.with(|p| p.borrow_mut().take()).unwrap_or_else(|| "unknown".to_string())
}

/// Variant name of a Debug-printed error (text before the first '(' / '{' / ' ').
pub fn err_class<E: std::fmt::Debug>(e: &E) -> String {
    let s = format!("{e:?}");
    s.split(['(', '{', ' ']).next().unwrap_or("Err").to_string()
}
