//! C10 — a cache is a bounded map: latest value or nothing, never over its limits.
//!
//! Sequential histories over `MemoryCache` (all eviction policies x small
//! entry/byte limits x value sizes up to 2x the byte limit x key universes
//! larger than the capacity) and `DiskCache` (flat / sub-directories, with and
//! without background tasks, drop-and-recreate on the same directory) are
//! executed against the real code; every result is judged against a reference
//! map `key -> (latest value, expiry class)`:
//!
//!  * `get` must be the latest live value of that exact key or nothing;
//!  * after every operation on the memory cache (count/size driven policies)
//!    entries <= max_entries and bytes <= max_memory_bytes, measured by
//!    `size()`/`stats()` and — in "sweep" histories — by what is retrievable;
//!  * every 10 operations and at the end: `get` over the whole key universe
//!    first, then `size()`/`stats()` must equal what was retrievable;
//!  * disk cache: a live (3600 s) entry must be served by a new instance on the
//!    same directory, an expired one (TTL 0 / a few ms + long sleep) must not.
//!
//! `--replay FILE` re-executes the history stored in the witness file.

use bytes::Bytes;
use cascette_cache::config::{DiskCacheConfig, MemoryCacheConfig};
use cascette_cache::key::RibbitKey;
use cascette_cache::{AsyncCache, DiskCache, EvictionPolicy, MemoryCache};
use serde::{Deserialize, Serialize};
use serde_json::json;
use std::collections::BTreeMap;
use std::sync::atomic::Ordering;
use std::time::{Duration, Instant};
use tokio::runtime::Runtime;
use vh::{Ctx, Rng, fnv64, hex_short};

/// Margin after which a short (milliseconds) TTL is regarded as certainly over.
const SHORT_TTL_MARGIN_MS: u64 = 200;

#[derive(Clone, Copy, Debug, Serialize, Deserialize, PartialEq, Eq)]
enum Ttl {
    /// `put` (default TTL of the cache: 3600 s or 24 h)
    Default,
    /// `put_with_ttl(3600 s)`
    Long,
    /// `put_with_ttl(0 ns)`
    Zero,
    /// `put_with_ttl(n ms)` — disk histories only, judged only after a sleep far past it
    ShortMs(u64),
}

#[derive(Clone, Debug, Serialize, Deserialize)]
enum Op {
    Put { k: usize, len: usize, tag: u64, ttl: Ttl },
    Get { k: usize },
    Contains { k: usize },
    Remove { k: usize },
    Clear,
    Size,
    Stats,
    /// `AsyncCache::is_empty` (provided method of the trait; judged at the checkpoints)
    IsEmpty,
    /// drop the instance and create a new one on the same directory (disk only)
    Reopen,
    /// sleep inside the runtime so that background tasks run / short TTLs pass
    Settle { ms: u64 },
}

#[derive(Clone, Debug, Serialize, Deserialize)]
struct MemCfg {
    policy: String,
    max_entries: usize,
    max_memory: Option<usize>,
    default_ttl_none: bool,
    cleanup_task: bool,
    cleanup_ms: u64,
    /// sweep `get` over the universe after EVERY operation (limits judged on retrievable contents too)
    sweep_every_op: bool,
    /// what the configuration says about the TTL of a plain `put` (overrides `default_ttl_none` unless `Unset`)
    #[serde(default)]
    default_ttl: DefTtl,
    /// configure through the builder methods (`with_max_memory`, `with_default_ttl`) instead of the public fields
    #[serde(default)]
    via_builders: bool,
}

/// The cache's configured default TTL, i.e. the life time of a plain `put`.
#[derive(Clone, Copy, Debug, Default, Serialize, Deserialize, PartialEq, Eq)]
enum DefTtl {
    /// leave what `MemoryCacheConfig::new()` / `DiskCacheConfig::new()` set (1 h / 24 h)
    #[default]
    Unset,
    /// `default_ttl = None` (the caches fall back to 1 h / 24 h)
    NoneSet,
    /// 3600 s
    Long,
    /// zero: every plain `put` stores an entry whose time-to-live has already ended
    Zero,
}

#[derive(Clone, Debug, Serialize, Deserialize)]
struct DiskCfg {
    /// 0 = flat directory
    subdir_levels: usize,
    background: bool,
    cleanup_ms: u64,
    max_files: usize,
    #[serde(default)]
    max_disk_bytes: Option<usize>,
    #[serde(default)]
    default_ttl: DefTtl,
    /// configure through `with_max_disk_usage` / `with_default_ttl` instead of the public fields
    #[serde(default)]
    via_builders: bool,
}

#[derive(Clone, Debug, Serialize, Deserialize)]
enum Target {
    Memory(MemCfg),
    Disk(DiskCfg),
}

#[derive(Clone, Debug, Serialize, Deserialize)]
struct History {
    label: String,
    target: Target,
    universe: usize,
    ops: Vec<Op>,
    /// a limit of this configuration is 0, i.e. just outside "from 1 up": the constructor may refuse it
    /// (what `validate` does); a cache that accepts it is held to the configured maxima like any other
    #[serde(default)]
    zero_limit_config: bool,
}

fn policy_of(name: &str) -> EvictionPolicy {
    match name {
        "Lfu" => EvictionPolicy::Lfu,
        "Fifo" => EvictionPolicy::Fifo,
        "Random" => EvictionPolicy::Random,
        "Ttl" => EvictionPolicy::Ttl,
        _ => EvictionPolicy::Lru,
    }
}

/// Injective key family with the shapes the crate really uses (plain, nested
/// endpoint path, dotted endpoint, product-qualified).
fn key(i: usize) -> RibbitKey {
    match i % 4 {
        0 => RibbitKey::new(format!("k{i}"), "us"),
        1 => RibbitKey::new(format!("products/p{i}/versions"), "eu"),
        2 => RibbitKey::new(format!("summary.v{i}"), "us"),
        _ => RibbitKey::with_product("cdns", "kr", format!("prod{i}")),
    }
}

/// Value bytes are a function of (tag, len): unique per put for len >= 8.
fn make_value(tag: u64, len: usize) -> Bytes {
    let mut v = vec![(tag as u8) ^ 0x5a; len];
    let t = tag.to_le_bytes();
    let n = len.min(8);
    v[..n].copy_from_slice(&t[..n]);
    if len >= 16 {
        let l = (len as u64).to_le_bytes();
        v[len - 8..].copy_from_slice(&l);
    }
    Bytes::from(v)
}

#[derive(Clone, Debug)]
enum Life {
    Live,
    /// TTL 0, or a short TTL known to be over
    Dead,
    Short { after: Instant, ttl_ms: u64 },
}

#[derive(Clone, Debug)]
struct Entry {
    val: Bytes,
    tag: u64,
    life: Life,
    /// instance generation that performed the put
    put_gen: u32,
    /// already counted as "dropped by the cache"
    seen_missing: bool,
}

#[derive(Clone, Debug)]
struct Past {
    hash: u64,
    len: usize,
    why: &'static str,
    /// instance generation that wrote the value / that replaced, removed or cleared it
    put_gen: u32,
    death_gen: u32,
}

#[derive(Clone, Debug, Default)]
struct Slot {
    /// admissible current entries: 0 or 1, 2 only after a put/remove that returned Err
    cur: Vec<Entry>,
    past: Vec<Past>,
}

impl Slot {
    fn retire(&mut self, why: &'static str, generation: u32) {
        for e in self.cur.drain(..) {
            self.past.push(Past { hash: fnv64(&e.val), len: e.val.len(), why, put_gen: e.put_gen, death_gen: generation });
        }
        if self.past.len() > 64 {
            let cut = self.past.len() - 64;
            self.past.drain(..cut);
        }
    }
}

enum Cache {
    Mem(MemoryCache<RibbitKey>),
    Disk(DiskCache<RibbitKey>),
}

impl Cache {
    fn api(&self) -> &dyn AsyncCache<RibbitKey> {
        match self {
            Cache::Mem(c) => c,
            Cache::Disk(c) => c,
        }
    }
}

struct Found {
    signature: String,
    summary: String,
    detail: serde_json::Value,
}

struct Runner<'a> {
    rt: &'a Runtime,
    h: &'a History,
    name: &'static str,
    dir: Option<tempfile::TempDir>,
    slots: Vec<Slot>,
    generation: u32,
    obs: BTreeMap<String, u64>,
    found: Vec<Found>,
    evicting_disk: bool,
    op_index: usize,
}

impl<'a> Runner<'a> {
    fn bump(&mut self, k: &str, n: u64) {
        *self.obs.entry(k.to_string()).or_insert(0) += n;
    }

    fn violate(&mut self, signature: String, summary: &str, extra: serde_json::Value) {
        if self.found.iter().any(|f| f.signature == signature) {
            self.bump("violations.repeated_in_history", 1);
            return;
        }
        let op = self.h.ops.get(self.op_index).map(|o| serde_json::to_value(o).unwrap_or_default());
        self.found.push(Found {
            signature,
            summary: summary.to_string(),
            detail: json!({
                "history": serde_json::to_value(self.h).unwrap_or_default(),
                "op_index": self.op_index,
                "op": op,
                "instance_generation": self.generation,
                "observed": extra,
            }),
        });
    }

    fn open(&self) -> Result<Cache, String> {
        let _guard = self.rt.enter();
        match &self.h.target {
            Target::Memory(c) => {
                let mut cfg = MemoryCacheConfig::new()
                    .with_max_entries(c.max_entries)
                    .with_eviction_policy(policy_of(&c.policy));
                match (c.via_builders, c.max_memory) {
                    (true, Some(m)) => cfg = cfg.with_max_memory(m),
                    _ => cfg.max_memory_bytes = c.max_memory,
                }
                if c.default_ttl_none {
                    cfg.default_ttl = None;
                }
                match (c.default_ttl, c.via_builders) {
                    (DefTtl::Unset, _) => {}
                    (DefTtl::NoneSet, _) => cfg.default_ttl = None,
                    (DefTtl::Long, true) => cfg = cfg.with_default_ttl(Duration::from_secs(3600)),
                    (DefTtl::Long, false) => cfg.default_ttl = Some(Duration::from_secs(3600)),
                    (DefTtl::Zero, true) => cfg = cfg.with_default_ttl(Duration::ZERO),
                    (DefTtl::Zero, false) => cfg.default_ttl = Some(Duration::ZERO),
                }
                if c.cleanup_task {
                    cfg.cleanup_interval = Duration::from_millis(c.cleanup_ms.max(1));
                    MemoryCache::new_with_cleanup(cfg).map(Cache::Mem).map_err(|e| e.to_string())
                } else {
                    MemoryCache::new(cfg).map(Cache::Mem).map_err(|e| e.to_string())
                }
            }
            Target::Disk(c) => {
                let dir = self.dir.as_ref().ok_or("no temp dir")?;
                let mut cfg = DiskCacheConfig::new(dir.path().join("cache")).with_max_files(c.max_files);
                match (c.via_builders, c.max_disk_bytes) {
                    (true, Some(m)) => cfg = cfg.with_max_disk_usage(m),
                    _ => cfg.max_disk_bytes = c.max_disk_bytes,
                }
                match (c.default_ttl, c.via_builders) {
                    (DefTtl::Unset, _) => {}
                    (DefTtl::NoneSet, _) => cfg.default_ttl = None,
                    (DefTtl::Long, true) => cfg = cfg.with_default_ttl(Duration::from_secs(3600)),
                    (DefTtl::Long, false) => cfg.default_ttl = Some(Duration::from_secs(3600)),
                    (DefTtl::Zero, true) => cfg = cfg.with_default_ttl(Duration::ZERO),
                    (DefTtl::Zero, false) => cfg.default_ttl = Some(Duration::ZERO),
                }
                cfg = cfg.with_subdirectories(c.subdir_levels > 0, c.subdir_levels);
                if c.background {
                    cfg.cleanup_interval = Duration::from_millis(c.cleanup_ms.max(1));
                    // the sync task runs `sync` once at start-up (interval fires immediately);
                    // PATH carries a no-op `sync` (see main) so that this cannot stall the run
                    cfg.sync_interval = Duration::from_secs(3600);
                    DiskCache::new_with_background_tasks(cfg).map(Cache::Disk).map_err(|e| e.to_string())
                } else {
                    DiskCache::new(cfg).map(Cache::Disk).map_err(|e| e.to_string())
                }
            }
        }
    }

    /// Advance short TTLs whose deadline is certainly over.
    fn age(&mut self) {
        let now = Instant::now();
        for s in &mut self.slots {
            for e in &mut s.cur {
                if let Life::Short { after, ttl_ms } = e.life {
                    if now.duration_since(after) >= Duration::from_millis(ttl_ms + SHORT_TTL_MARGIN_MS) {
                        e.life = Life::Dead;
                    }
                }
            }
        }
    }

    /// Judge one `get` result for key `k`. Returns the retrievable length.
    fn judge_get(&mut self, k: usize, got: &Result<Option<Bytes>, String>, via: &str) -> Option<usize> {
        self.age();
        let name = self.name;
        let is_disk = matches!(self.h.target, Target::Disk(_));
        let generation = self.generation;
        match got {
            Ok(Some(b)) => {
                let pos = self.slots[k].cur.iter().position(|e| e.val == *b);
                if let Some(p) = pos {
                    let e = self.slots[k].cur[p].clone();
                    match e.life {
                        Life::Live => {
                            self.bump(&format!("{name}.get.hit_live_value"), 1);
                            if is_disk && b.len() >= 16 * 1024 * 1024 {
                                self.bump("disk.get.hit_live_value_of_16MiB_or_more(large-file read path)", 1);
                            }
                            if is_disk && generation > e.put_gen {
                                self.bump("disk.live_entry_served_by_new_instance", 1);
                            }
                        }
                        Life::Short { .. } => self.bump(&format!("{name}.get.hit_short_ttl_value_before_deadline_margin"), 1),
                        Life::Dead => {
                            let new_inst = is_disk && generation > e.put_gen;
                            let sig = if new_inst {
                                "C10|DiskCache|new-instance-serves-expired-entry".to_string()
                            } else {
                                format!("C10|{name}|get|expired-entry-served|same-instance")
                            };
                            self.bump(&format!("{name}.get.expired_entry_served"), 1);
                            self.violate(
                                sig,
                                "get returned a value whose time-to-live had ended",
                                json!({"via": via, "key": key(k).as_cache_key(), "value": hex_short(b, 24), "len": b.len(), "put_generation": e.put_gen}),
                            );
                        }
                    }
                } else {
                    // not an admissible current value: classify
                    let hb = fnv64(b);
                    let own_past = self.slots[k].past.iter().rev().find(|p| p.len == b.len() && p.hash == hb).cloned();
                    let class = if let Some(p) = &own_past {
                        format!("{}-value-served", p.why)
                    } else if self.slots.iter().enumerate().any(|(j, s)| {
                        j != k && (s.cur.iter().any(|e| e.val == *b) || s.past.iter().any(|p| p.len == b.len() && p.hash == hb))
                    }) {
                        "other-keys-value-served".to_string()
                    } else {
                        "unknown-bytes-served".to_string()
                    };
                    // disk: was the value written by an earlier instance than the one that retired it?
                    let cond = match (&own_past, is_disk) {
                        (Some(p), true) if p.death_gen > p.put_gen => "|written-by-earlier-instance",
                        (Some(_), true) => "|same-instance",
                        _ => "",
                    };
                    self.bump(&format!("{name}.get.wrong_value"), 1);
                    self.violate(
                        format!("C10|{name}|get|{class}{cond}"),
                        "get returned bytes that are not the latest live value of that key",
                        json!({"via": via, "key": key(k).as_cache_key(), "got": hex_short(b, 24), "got_len": b.len(),
                               "admissible": self.slots[k].cur.iter().map(|e| json!({"tag": e.tag, "len": e.val.len()})).collect::<Vec<_>>()}),
                    );
                }
                Some(b.len())
            }
            Ok(None) | Err(_) => {
                if got.is_err() {
                    self.bump(&format!("{name}.get.err"), 1);
                }
                let evicting = self.evicting_disk;
                let byte_budget = match &self.h.target {
                    Target::Memory(c) => c.max_memory,
                    Target::Disk(_) => None,
                };
                let slot = &mut self.slots[k];
                let live_single = slot.cur.len() == 1 && matches!(slot.cur[0].life, Life::Live);
                if live_single && byte_budget.is_some_and(|m| slot.cur[0].val.len() > m) {
                    // a value above the whole byte budget can never be held: not an eviction
                    self.bump("MemoryCache.get.none_for_value_larger_than_byte_budget(observation)", 1);
                } else if live_single {
                    let e_gen = slot.cur[0].put_gen;
                    let first = !slot.cur[0].seen_missing;
                    slot.cur[0].seen_missing = true;
                    if first {
                        self.bump(&format!("{name}.live_entry_dropped(eviction_observed)"), 1);
                    }
                    self.bump(&format!("{name}.get.miss_on_live_key"), 1);
                    if is_disk && generation > e_gen && !evicting && first {
                        let class = if got.is_err() { "error" } else { "none" };
                        self.violate(
                            format!("C10|DiskCache|live-entry-not-retrievable-by-new-instance|{class}"),
                            "an entry put with a 3600 s / default TTL is not served by a new instance on the same directory",
                            json!({"via": via, "key": key(k).as_cache_key(), "result": format!("{got:?}"), "put_generation": e_gen}),
                        );
                    }
                } else {
                    self.bump(&format!("{name}.get.none_for_absent_or_expired"), 1);
                }
                None
            }
        }
    }

    fn do_get(&mut self, cache: &Cache, k: usize) -> Result<Option<Bytes>, String> {
        let kk = key(k);
        self.rt.block_on(cache.api().get(&kk)).map_err(|e| e.to_string())
    }

    /// `get` over the whole universe; returns (retrievable entries, retrievable bytes).
    fn sweep(&mut self, cache: &Cache, via: &str) -> (usize, usize) {
        let mut n = 0usize;
        let mut bytes = 0usize;
        for k in 0..self.h.universe {
            let got = self.do_get(cache, k);
            if let Some(len) = self.judge_get(k, &got, via) {
                n += 1;
                bytes += len;
            }
        }
        self.bump(&format!("{}.sweeps", self.name), 1);
        (n, bytes)
    }

    /// Limits after every operation (memory cache, count/size driven policies).
    fn check_limits(&mut self, cache: &Cache, c: &MemCfg, just_put_len: Option<usize>) {
        if c.policy == "Ttl" {
            self.bump("memory.limit_checks_skipped(Ttl policy excluded by statement)", 1);
            return;
        }
        let size = self.rt.block_on(cache.api().size()).ok();
        let stats = self.rt.block_on(cache.api().stats()).ok();
        let swept = if c.sweep_every_op { Some(self.sweep(cache, "limit-sweep")) } else { None };
        self.bump("memory.limit_checks", 1);
        let mut entries: Vec<(&str, usize)> = Vec::new();
        let mut bytes: Vec<(&str, usize)> = Vec::new();
        if let Some(s) = size {
            entries.push(("size()", s));
        }
        if let Some(st) = &stats {
            entries.push(("stats().entry_count", st.entry_count));
            bytes.push(("stats().memory_usage_bytes", st.memory_usage_bytes));
        }
        if let Some((n, b)) = swept {
            entries.push(("retrievable entries", n));
            bytes.push(("retrievable bytes", b));
        }
        let over_e: Vec<_> = entries.iter().filter(|(_, v)| *v > c.max_entries).collect();
        if !over_e.is_empty() {
            // a limit of 0 that the constructor accepted is a different defect from an eviction that stops too early
            let cond = if c.max_entries == 0 { "|max_entries=0-accepted" } else { "" };
            self.violate(
                format!("C10|MemoryCache|entries-exceed-max_entries{cond}"),
                "after an operation the memory cache holds more entries than max_entries",
                json!({"max_entries": c.max_entries, "measures": entries.iter().map(|(n, v)| json!({"measure": n, "value": v})).collect::<Vec<_>>()}),
            );
        }
        if let Some(max) = c.max_memory {
            let over_b: Vec<_> = bytes.iter().filter(|(_, v)| *v > max).collect();
            if !over_b.is_empty() {
                // witness class: the operation that was just executed stored one value above the whole budget
                let measured = bytes.iter().map(|(_, v)| *v).max().unwrap_or(0);
                let witness = if max == 0 {
                    "max_memory_bytes=0-accepted"
                } else if just_put_len.is_some_and(|l| l > max && measured >= l) {
                    "single-value-larger-than-limit"
                } else {
                    "sum-of-values"
                };
                self.bump(&format!("memory.bytes_over_limit.{witness}"), 1);
                self.violate(
                    format!("C10|MemoryCache|cached-bytes-exceed-max_memory_bytes|{witness}"),
                    "after an operation the memory cache holds more bytes than max_memory_bytes",
                    json!({"max_memory_bytes": max, "max_entries": c.max_entries, "policy": c.policy,
                           "measures": bytes.iter().map(|(n, v)| json!({"measure": n, "value": v})).collect::<Vec<_>>()}),
                );
            }
        }
    }

    /// Sweep first (purges lazily expired entries), then the books must equal what was retrievable.
    fn checkpoint(&mut self, cache: &Cache) {
        let name = self.name;
        let (n, bytes) = self.sweep(cache, "checkpoint-sweep");
        let size = self.rt.block_on(cache.api().size());
        let stats = self.rt.block_on(cache.api().stats());
        self.bump(&format!("{name}.checkpoints"), 1);
        let dir = |rep: usize, real: usize| if rep > real { "reports-more" } else { "reports-less" };
        match size {
            Ok(s) if s != n => self.violate(
                format!("C10|{name}|size()!=retrievable-entries|{}", dir(s, n)),
                "size() differs from the number of entries retrievable right before it",
                json!({"size()": s, "retrievable_entries": n}),
            ),
            Ok(_) => {}
            Err(e) => self.bump(&format!("{name}.size.err:{e}"), 1),
        }
        // is_empty() is the same reported figure seen through the trait's provided method
        match self.rt.block_on(cache.api().is_empty()) {
            Ok(empty) if empty != (n == 0) => self.violate(
                format!("C10|{name}|is_empty()!=nothing-retrievable|{}", if empty { "reports-empty" } else { "reports-non-empty" }),
                "is_empty() disagrees with whether anything was retrievable right before it",
                json!({"is_empty()": empty, "retrievable_entries": n}),
            ),
            Ok(empty) => self.bump(&format!("{name}.is_empty.agrees.{empty}"), 1),
            Err(e) => self.bump(&format!("{name}.is_empty.err:{e}"), 1),
        }
        match stats {
            Ok(st) => {
                if st.entry_count != n {
                    self.violate(
                        format!("C10|{name}|stats.entry_count!=retrievable-entries|{}", dir(st.entry_count, n)),
                        "stats().entry_count differs from the number of entries retrievable right before it",
                        json!({"stats.entry_count": st.entry_count, "retrievable_entries": n}),
                    );
                }
                if st.memory_usage_bytes != bytes {
                    self.violate(
                        format!("C10|{name}|stats.memory_usage_bytes!=retrievable-bytes|{}", dir(st.memory_usage_bytes, bytes)),
                        "stats().memory_usage_bytes differs from the bytes retrievable right before it",
                        json!({"stats.memory_usage_bytes": st.memory_usage_bytes, "retrievable_bytes": bytes, "retrievable_entries": n}),
                    );
                }
            }
            Err(e) => self.bump(&format!("{name}.stats.err:{e}"), 1),
        }
    }

    fn run(&mut self) -> Result<(), String> {
        let mut cache = self.open()?;
        let ops = self.h.ops.clone();
        for (i, op) in ops.iter().enumerate() {
            self.op_index = i;
            let name = self.name;
            match op {
                Op::Put { k, len, tag, ttl } => {
                    let val = make_value(*tag, *len);
                    let kk = key(*k);
                    let r = match ttl {
                        Ttl::Default => self.rt.block_on(cache.api().put(kk, val.clone())),
                        Ttl::Long => self.rt.block_on(cache.api().put_with_ttl(kk, val.clone(), Duration::from_secs(3600))),
                        Ttl::Zero => self.rt.block_on(cache.api().put_with_ttl(kk, val.clone(), Duration::ZERO)),
                        Ttl::ShortMs(ms) => self.rt.block_on(cache.api().put_with_ttl(kk, val.clone(), Duration::from_millis(*ms))),
                    };
                    let after = Instant::now();
                    // a plain `put` lives as long as the configured default TTL says: 1 h / 24 h, or not at all
                    let default_ttl = match &self.h.target {
                        Target::Memory(c) => c.default_ttl,
                        Target::Disk(c) => c.default_ttl,
                    };
                    let life = match ttl {
                        Ttl::Default if default_ttl == DefTtl::Zero => {
                            self.bump(&format!("{name}.op.put.default_ttl_configured_zero"), 1);
                            Life::Dead
                        }
                        Ttl::Default | Ttl::Long => Life::Live,
                        Ttl::Zero => Life::Dead,
                        Ttl::ShortMs(ms) => Life::Short { after, ttl_ms: *ms },
                    };
                    self.bump(&format!("{name}.op.put.{}", match ttl { Ttl::Default => "default_ttl", Ttl::Long => "ttl_3600s", Ttl::Zero => "ttl_0", Ttl::ShortMs(_) => "ttl_ms" }), 1);
                    let entry = Entry { val, tag: *tag, life, put_gen: self.generation, seen_missing: false };
                    match r {
                        Ok(()) => {
                            let g = self.generation;
                            self.slots[*k].retire("replaced", g);
                            self.slots[*k].cur.push(entry);
                        }
                        Err(e) => {
                            // unsuccessful put: old and new value are both admissible afterwards
                            self.bump(&format!("{name}.put.err:{}", e.to_string().chars().take(40).collect::<String>()), 1);
                            self.slots[*k].cur.push(entry);
                        }
                    }
                }
                Op::Get { k } => {
                    self.bump(&format!("{name}.op.get"), 1);
                    let got = self.do_get(&cache, *k);
                    self.judge_get(*k, &got, "get");
                }
                Op::Contains { k } => {
                    self.bump(&format!("{name}.op.contains"), 1);
                    self.age();
                    let r = self.rt.block_on(cache.api().contains(&key(*k)));
                    let live = self.slots[*k].cur.iter().any(|e| !matches!(e.life, Life::Dead));
                    match r {
                        Ok(true) if !live => self.bump(&format!("{name}.contains.true_for_absent_or_expired_key(observation)"), 1),
                        Ok(false) if live => self.bump(&format!("{name}.contains.false_for_live_key(observation)"), 1),
                        Ok(_) => self.bump(&format!("{name}.contains.agrees_with_model"), 1),
                        Err(_) => self.bump(&format!("{name}.contains.err"), 1),
                    }
                }
                Op::Remove { k } => {
                    self.bump(&format!("{name}.op.remove"), 1);
                    match self.rt.block_on(cache.api().remove(&key(*k))) {
                        Ok(found) => {
                            self.bump(&format!("{name}.remove.returned_{found}"), 1);
                            let g = self.generation;
                            self.slots[*k].retire("removed", g);
                        }
                        Err(_) => self.bump(&format!("{name}.remove.err"), 1),
                    }
                }
                Op::Clear => {
                    self.bump(&format!("{name}.op.clear"), 1);
                    match self.rt.block_on(cache.api().clear()) {
                        Ok(()) => {
                            let g = self.generation;
                            for s in &mut self.slots {
                                s.retire("cleared", g);
                            }
                        }
                        Err(_) => self.bump(&format!("{name}.clear.err"), 1),
                    }
                }
                Op::Size => {
                    self.bump(&format!("{name}.op.size"), 1);
                    let _ = self.rt.block_on(cache.api().size());
                }
                Op::Stats => {
                    self.bump(&format!("{name}.op.stats"), 1);
                    let _ = self.rt.block_on(cache.api().stats());
                }
                Op::IsEmpty => {
                    self.bump(&format!("{name}.op.is_empty"), 1);
                    let _ = self.rt.block_on(cache.api().is_empty());
                }
                Op::Reopen => {
                    self.bump("disk.op.reopen", 1);
                    drop(cache);
                    self.generation += 1;
                    cache = self.open()?;
                }
                Op::Settle { ms } => {
                    self.bump(&format!("{name}.op.settle"), 1);
                    let ms = *ms;
                    self.rt.block_on(async move { tokio::time::sleep(Duration::from_millis(ms)).await });
                }
            }
            if let Target::Memory(c) = &self.h.target {
                let c = c.clone();
                let just_put_len = if let Op::Put { len, .. } = op { Some(*len) } else { None };
                self.check_limits(&cache, &c, just_put_len);
            }
            if (i + 1) % 10 == 0 {
                self.checkpoint(&cache);
            }
        }
        self.op_index = ops.len().saturating_sub(1);
        self.checkpoint(&cache);
        // final persistence round for the disk cache: a brand-new instance judges every key once more
        if matches!(self.h.target, Target::Disk(_)) {
            drop(cache);
            self.generation += 1;
            cache = self.open()?;
            self.bump("disk.final_reopen", 1);
            self.checkpoint(&cache);
        }
        drop(cache);
        Ok(())
    }
}

fn run_history(ctx: &Ctx, rt: &Runtime, h: &History) {
    let is_disk = matches!(h.target, Target::Disk(_));
    let dir = if is_disk {
        match tempfile::Builder::new().prefix("vh-c10-").tempdir() {
            Ok(d) => Some(d),
            Err(e) => {
                ctx.inconclusive(&format!("cannot create temp dir: {e}"));
                return;
            }
        }
    } else {
        None
    };
    let evicting_disk = match &h.target {
        Target::Disk(c) => c.background && (c.max_files < h.universe || c.max_disk_bytes.is_some()),
        Target::Memory(_) => false,
    };
    let mut r = Runner {
        rt,
        h,
        name: if is_disk { "DiskCache" } else { "MemoryCache" },
        dir,
        slots: vec![Slot::default(); h.universe],
        generation: 0,
        obs: BTreeMap::new(),
        found: Vec::new(),
        evicting_disk,
        op_index: 0,
    };
    let outcome = std::panic::catch_unwind(std::panic::AssertUnwindSafe(|| r.run()));
    let hash = fnv64(serde_json::to_string(h).unwrap_or_default().as_bytes());
    match outcome {
        Ok(Ok(())) => {
            if h.zero_limit_config {
                ctx.obs("zero_limit_config.accepted_and_run_under_the_usual_oracle", 1);
            }
            // non-trivial: key population larger than capacity, or byte budget below the bytes put,
            // or (disk) at least one drop-and-recreate
            let nontrivial = match &h.target {
                Target::Memory(c) => {
                    let total: usize = h.ops.iter().map(|o| if let Op::Put { len, .. } = o { *len } else { 0 }).sum();
                    h.universe > c.max_entries || c.max_memory.is_some_and(|m| m < total)
                }
                Target::Disk(_) => h.ops.iter().any(|o| matches!(o, Op::Reopen)),
            };
            if nontrivial {
                ctx.eval_nontrivial(hash);
            } else {
                ctx.eval();
            }
        }
        Ok(Err(e)) if h.zero_limit_config => {
            // refusing a zero limit is one of the two admissible answers (the other: accept it and keep to it)
            ctx.eval();
            ctx.obs("zero_limit_config.refused_by_constructor", 1);
            ctx.obs(&format!("zero_limit_config.refused_by_constructor:{}", e.chars().take(90).collect::<String>()), 1);
        }
        Ok(Err(e)) => ctx.inconclusive(&format!("harness could not construct the cache: {e}")),
        Err(p) => {
            let msg = vh::monitor::watchdog::panic_message(&p);
            ctx.eval();
            // canonical class of the panic: the message with every number replaced (no lengths, indices or
            // addresses), so that two different panics are two findings; the operation that was executing goes
            // into the detail only (one defect in a shared helper panics in put, get and remove alike)
            let op_kind = match h.ops.get(r.op_index) {
                Some(Op::Put { .. }) => "put",
                Some(Op::Get { .. }) => "get",
                Some(Op::Contains { .. }) => "contains",
                Some(Op::Remove { .. }) => "remove",
                Some(Op::Clear) => "clear",
                Some(Op::Size) => "size",
                Some(Op::Stats) => "stats",
                Some(Op::IsEmpty) => "is_empty",
                Some(Op::Reopen) => "reopen",
                Some(Op::Settle { .. }) => "settle",
                None => "end",
            };
            let mut class = String::new();
            for ch in msg.chars().take(80) {
                let c = if ch.is_ascii_digit() { '#' } else if ch.is_ascii_alphanumeric() { ch.to_ascii_lowercase() } else { '-' };
                if !((c == '-' || c == '#') && class.ends_with(c)) {
                    class.push(c);
                }
            }
            ctx.violation(
                &format!("C10|{}|panic|{}", r.name, class.trim_matches('-')),
                "a cache operation panicked during a sequential history",
                json!({"history": serde_json::to_value(h).unwrap_or_default(), "op_index": r.op_index, "op_kind": op_kind, "panic": msg}),
            );
        }
    }
    for (k, v) in &r.obs {
        ctx.obs(k, *v);
    }
    ctx.obs(&format!("histories.{}", if is_disk { "disk" } else { "memory" }), 1);
    match &h.target {
        Target::Memory(c) => {
            ctx.obs(&format!("config.memory.default_ttl.{:?}", c.default_ttl), 1);
            if c.via_builders {
                ctx.obs("config.memory.through_builder_methods", 1);
            }
        }
        Target::Disk(c) => {
            ctx.obs(&format!("config.disk.default_ttl.{:?}", c.default_ttl), 1);
            ctx.obs(&format!("config.disk.subdirectory_levels.{}", match c.subdir_levels { 0..=2 => c.subdir_levels.to_string(), 3..=8 => "3-8".to_string(), _ => "above-8".to_string() }), 1);
            if c.via_builders {
                ctx.obs("config.disk.through_builder_methods", 1);
            }
            if c.max_disk_bytes.is_some() {
                ctx.obs(&format!("config.disk.max_disk_bytes_set.{}", if c.background { "with_cleanup_task" } else { "without_cleanup_task" }), 1);
            }
        }
    }
    ctx.obs("operations.total", h.ops.len() as u64);
    for f in r.found.drain(..) {
        ctx.violation(&f.signature, &f.summary, f.detail);
    }
    if ctx.want_sample() && h.label.starts_with("directed") {
        ctx.sample(json!({"label": h.label, "target": serde_json::to_value(&h.target).unwrap_or_default(), "universe": h.universe, "ops": h.ops.len(),
                          "first_ops": h.ops.iter().take(6).map(|o| serde_json::to_value(o).unwrap_or_default()).collect::<Vec<_>>()}));
    }
}

// ---------------------------------------------------------------- generation

fn value_len(rng: &mut Rng, limit: usize, max_entries: usize) -> usize {
    match rng.below(12) {
        0 => 0,
        1 => 1,
        2 | 3 => rng.urange(0, 16),
        4 | 5 => {
            // around the fair share of one entry
            let share = (limit / max_entries.max(1)).max(1);
            rng.urange(share.saturating_sub(2), share + 2)
        }
        6 => limit.saturating_sub(1),
        7 => limit,
        8 => limit + 1,
        9 => 2 * limit,
        _ => rng.urange(0, 2 * limit),
    }
}

const POLICIES: [&str; 5] = ["Lru", "Lfu", "Fifo", "Random", "Ttl"];
const MAX_ENTRIES: [usize; 5] = [1, 2, 3, 8, 64];
const MAX_MEMORY: [Option<usize>; 5] = [None, Some(1), Some(64), Some(1000), Some(1_000_000)];

fn gen_memory(rng: &mut Rng, idx: usize, tagbase: u64) -> History {
    let policy = POLICIES[idx % 5];
    let max_entries = MAX_ENTRIES[(idx / 5) % 5];
    let max_memory = MAX_MEMORY[(idx / 25) % 5];
    let factor_pct = rng.urange(150, 400);
    let universe = ((max_entries * factor_pct).div_ceil(100)).max(2);
    let n_ops = rng.urange(30, 300);
    let limit = max_memory.unwrap_or(256);
    let cleanup_task = rng.chance(1, 8);
    let mut ops = Vec::with_capacity(n_ops);
    let mut tag = tagbase;
    // hot subset so that replacement and re-reads are frequent
    let hot = rng.urange(1, universe);
    let mut settles = 0;
    for _ in 0..n_ops {
        let k = if rng.chance(1, 2) { rng.usize_below(hot) } else { rng.usize_below(universe) };
        let r = rng.below(1000);
        let op = if r < 350 {
            tag += 1;
            Op::Put { k, len: value_len(rng, limit, max_entries), tag, ttl: Ttl::Default }
        } else if r < 450 {
            tag += 1;
            Op::Put { k, len: value_len(rng, limit, max_entries), tag, ttl: Ttl::Long }
        } else if r < 540 {
            tag += 1;
            Op::Put { k, len: value_len(rng, limit, max_entries), tag, ttl: Ttl::Zero }
        } else if r < 790 {
            Op::Get { k }
        } else if r < 850 {
            Op::Contains { k }
        } else if r < 925 {
            Op::Remove { k }
        } else if r < 940 {
            Op::Clear
        } else if r < 954 {
            Op::Size
        } else if r < 968 {
            Op::IsEmpty
        } else if r < 995 || !cleanup_task || settles >= 3 {
            Op::Stats
        } else {
            settles += 1;
            Op::Settle { ms: 30 }
        };
        ops.push(op);
    }
    if cleanup_task && settles == 0 {
        let at = rng.usize_below(ops.len());
        ops.insert(at, Op::Settle { ms: 30 });
    }
    History {
        label: format!("memory#{idx}"),
        target: Target::Memory(MemCfg {
            policy: policy.to_string(),
            max_entries,
            max_memory,
            default_ttl_none: false,
            cleanup_task,
            cleanup_ms: 5,
            sweep_every_op: rng.bool(),
            default_ttl: match rng.below(10) {
                0 | 1 => DefTtl::NoneSet,
                2 => DefTtl::Zero,
                3 | 4 => DefTtl::Long,
                _ => DefTtl::Unset,
            },
            via_builders: rng.bool(),
        }),
        universe,
        ops,
        zero_limit_config: false,
    }
}

fn gen_disk(rng: &mut Rng, idx: usize, tagbase: u64) -> History {
    // flat / 1 / 2 levels in rotation; now and then 3, 8 (one byte of the 64-bit key hash per level) and 10 (more levels than the hash has bytes)
    let subdir_levels = match idx % 24 {
        10 => 3,
        23 => [8, 10][(idx / 24) % 2],
        x => x % 3,
    };
    let background = idx % 4 == 3;
    let universe = rng.urange(4, 24);
    let max_files = if background && rng.chance(1, 3) { (universe / 2).max(1) } else { 100_000 };
    let allow_short = rng.chance(1, 6);
    let n_ops = rng.urange(30, 120);
    let mut ops = Vec::with_capacity(n_ops + 4);
    let mut tag = tagbase;
    let hot = rng.urange(1, universe);
    let mut long_settles = 0;
    let mut short_settles = 0;
    let mut pending_short = false;
    for _ in 0..n_ops {
        let k = if rng.chance(1, 2) { rng.usize_below(hot) } else { rng.usize_below(universe) };
        let len = match rng.below(10) {
            0 => 0,
            1 => 1,
            2..=6 => rng.urange(0, 300),
            7 | 8 => rng.urange(300, 5000),
            _ => rng.urange(5000, 40_000),
        };
        let r = rng.below(1000);
        let op = if r < 300 {
            tag += 1;
            let t = rng.below(100);
            let ttl = if t < 50 {
                Ttl::Default
            } else if t < 70 {
                Ttl::Long
            } else if t < 95 || !allow_short {
                Ttl::Zero
            } else {
                pending_short = true;
                Ttl::ShortMs(rng.range(2, 8))
            };
            Op::Put { k, len, tag, ttl }
        } else if r < 560 {
            Op::Get { k }
        } else if r < 610 {
            Op::Contains { k }
        } else if r < 700 {
            Op::Remove { k }
        } else if r < 712 {
            Op::Clear
        } else if r < 735 {
            Op::Size
        } else if r < 750 {
            Op::IsEmpty
        } else if r < 780 {
            Op::Stats
        } else if r < 900 {
            Op::Reopen
        } else if pending_short && long_settles < 2 {
            long_settles += 1;
            pending_short = false;
            Op::Settle { ms: 8 + SHORT_TTL_MARGIN_MS + 40 }
        } else if background && short_settles < 4 {
            short_settles += 1;
            Op::Settle { ms: 70 }
        } else {
            Op::Get { k }
        };
        ops.push(op);
    }
    if pending_short {
        ops.push(Op::Settle { ms: 8 + SHORT_TTL_MARGIN_MS + 40 });
        ops.push(Op::Reopen);
    }
    if background && short_settles == 0 {
        ops.push(Op::Settle { ms: 70 });
    }
    // a byte budget for the cleanup task (the statement bounds only the memory cache; what is judged is that
    // the books still equal the retrievable contents after the task evicted for it)
    let max_disk_bytes = if background && rng.chance(1, 2) { Some([1usize, 600, 6000][rng.usize_below(3)]) } else { None };
    let default_ttl = match rng.below(10) {
        0 => DefTtl::NoneSet,
        1 => DefTtl::Zero,
        2 | 3 => DefTtl::Long,
        _ => DefTtl::Unset,
    };
    History {
        label: format!("disk#{idx}"),
        target: Target::Disk(DiskCfg { subdir_levels, background, cleanup_ms: 20, max_files, max_disk_bytes, default_ttl, via_builders: rng.bool() }),
        universe,
        ops,
        zero_limit_config: false,
    }
}

/// Hand-written histories for the behaviours the property text names explicitly.
fn directed() -> Vec<History> {
    let mut v = Vec::new();
    let mem = |policy: &str, max_entries: usize, max_memory: Option<usize>, sweep: bool| MemCfg {
        policy: policy.to_string(),
        max_entries,
        max_memory,
        default_ttl_none: false,
        cleanup_task: false,
        cleanup_ms: 5,
        sweep_every_op: sweep,
        default_ttl: DefTtl::Unset,
        via_builders: false,
    };
    // 1. the design-time probe: byte budget 1000, entry budget 1000, one hundred 100-byte puts
    for (pi, policy) in ["Lru", "Lfu", "Fifo", "Random"].iter().enumerate() {
        let ops = (0..100).map(|i| Op::Put { k: i, len: 100, tag: 900_000 + (pi * 1000 + i) as u64, ttl: Ttl::Default }).collect();
        v.push(History { label: format!("directed:100x100B-into-1000B/{policy}"), target: Target::Memory(mem(policy, 1000, Some(1000), pi % 2 == 0)), universe: 100, ops, zero_limit_config: false });
    }
    // 2. one value larger than the whole byte budget, then a small one, then a replace by an oversized one
    let ops = vec![
        Op::Put { k: 0, len: 128, tag: 910_001, ttl: Ttl::Default },
        Op::Get { k: 0 },
        Op::Put { k: 1, len: 10, tag: 910_002, ttl: Ttl::Default },
        Op::Get { k: 1 },
        Op::Put { k: 1, len: 65, tag: 910_003, ttl: Ttl::Long },
        Op::Get { k: 1 },
        Op::Stats,
    ];
    v.push(History { label: "directed:oversized-single-value".into(), target: Target::Memory(mem("Lru", 8, Some(64), true)), universe: 3, ops, zero_limit_config: false });
    // 3. replace with smaller/larger values and TTL-0 entries under a tight entry budget
    let mut ops = Vec::new();
    for i in 0..40u64 {
        ops.push(Op::Put { k: (i % 3) as usize, len: ((i * 37) % 90) as usize, tag: 920_000 + i, ttl: if i % 4 == 3 { Ttl::Zero } else { Ttl::Default } });
        if i % 5 == 4 {
            ops.push(Op::Remove { k: ((i + 1) % 3) as usize });
        }
    }
    v.push(History { label: "directed:replace-expire-remove-books".into(), target: Target::Memory(mem("Fifo", 2, Some(1000), false)), universe: 3, ops, zero_limit_config: false });
    // 4. disk: expiry and removal across instances
    let disk = |levels: usize, background: bool| DiskCfg {
        subdir_levels: levels,
        background,
        cleanup_ms: 20,
        max_files: 100_000,
        max_disk_bytes: None,
        default_ttl: DefTtl::Unset,
        via_builders: false,
    };
    for levels in [0usize, 2] {
        let ops = vec![
            Op::Put { k: 0, len: 40, tag: 930_001, ttl: Ttl::Long },
            Op::Put { k: 1, len: 50, tag: 930_002, ttl: Ttl::Zero },
            Op::Put { k: 2, len: 60, tag: 930_003, ttl: Ttl::ShortMs(5) },
            Op::Put { k: 3, len: 70, tag: 930_004, ttl: Ttl::Default },
            Op::Settle { ms: 5 + SHORT_TTL_MARGIN_MS + 60 },
            Op::Reopen,
            Op::Get { k: 0 },
            Op::Get { k: 1 },
            Op::Get { k: 2 },
            Op::Remove { k: 3 },
            Op::Get { k: 3 },
            Op::Size,
            Op::Stats,
        ];
        v.push(History { label: format!("directed:disk-ttl-and-remove-across-instances/levels={levels}"), target: Target::Disk(disk(levels, false)), universe: 5, ops, zero_limit_config: false });
    }
    // 5. disk with background cleanup: expired entries are purged by the task, books must follow
    let ops = vec![
        Op::Put { k: 0, len: 100, tag: 940_001, ttl: Ttl::Default },
        Op::Put { k: 1, len: 200, tag: 940_002, ttl: Ttl::Zero },
        Op::Put { k: 2, len: 300, tag: 940_003, ttl: Ttl::Zero },
        Op::Settle { ms: 150 },
        Op::Size,
        Op::Stats,
        Op::Get { k: 0 },
    ];
    v.push(History { label: "directed:disk-background-cleanup-books".into(), target: Target::Disk(disk(0, true)), universe: 4, ops, zero_limit_config: false });
    // 6. the cache's own default TTL decides how long a plain `put` lives: configured as zero (through the
    //    builder and through the field) nothing put that way may be served, by this instance or the next
    for (bi, via_builders) in [true, false].into_iter().enumerate() {
        let t = 950_000 + 100 * bi as u64;
        let ops = vec![
            Op::Put { k: 0, len: 30, tag: t + 1, ttl: Ttl::Default },
            Op::Get { k: 0 },
            Op::Put { k: 1, len: 31, tag: t + 2, ttl: Ttl::Long },
            Op::Put { k: 1, len: 32, tag: t + 3, ttl: Ttl::Default },
            Op::Get { k: 1 },
            Op::IsEmpty,
            Op::Put { k: 2, len: 33, tag: t + 4, ttl: Ttl::Long },
            Op::Get { k: 2 },
            Op::Stats,
        ];
        let mut m = mem("Lru", 8, Some(1000), true);
        m.default_ttl = DefTtl::Zero;
        m.via_builders = via_builders;
        v.push(History { label: format!("directed:memory-default-ttl-zero/builders={via_builders}"), target: Target::Memory(m), universe: 3, ops: ops.clone(), zero_limit_config: false });
        let mut d = disk(1, false);
        d.default_ttl = DefTtl::Zero;
        d.via_builders = via_builders;
        let mut ops = ops;
        ops.push(Op::Reopen);
        ops.push(Op::Get { k: 0 });
        ops.push(Op::Get { k: 2 });
        v.push(History { label: format!("directed:disk-default-ttl-zero/builders={via_builders}"), target: Target::Disk(d), universe: 3, ops, zero_limit_config: false });
    }
    // 7. disk: a value of 16 MiB and more is read back through the large-file path, by this instance and the next
    let big = 16 * 1024 * 1024;
    let ops = vec![
        Op::Put { k: 0, len: big - 1, tag: 960_001, ttl: Ttl::Long },
        Op::Put { k: 1, len: big, tag: 960_002, ttl: Ttl::Default },
        Op::Put { k: 2, len: big + 3, tag: 960_003, ttl: Ttl::Long },
        Op::Get { k: 0 },
        Op::Get { k: 1 },
        Op::Get { k: 2 },
        Op::Stats,
        Op::Put { k: 1, len: big + 1, tag: 960_004, ttl: Ttl::Long },
        Op::Put { k: 2, len: big + 5, tag: 960_005, ttl: Ttl::Zero },
        Op::Reopen,
        Op::Get { k: 1 },
        Op::Get { k: 2 },
    ];
    v.push(History { label: "directed:disk-values-of-16MiB-and-more".into(), target: Target::Disk(disk(0, false)), universe: 3, ops, zero_limit_config: false });
    // 8. disk: more sub-directory levels than the 64-bit key hash has bytes
    for levels in [8usize, 9, 12] {
        let ops = vec![
            Op::Put { k: 0, len: 40, tag: 970_001, ttl: Ttl::Long },
            Op::Put { k: 1, len: 50, tag: 970_002, ttl: Ttl::Default },
            Op::Get { k: 0 },
            Op::Put { k: 0, len: 41, tag: 970_003, ttl: Ttl::Long },
            Op::Remove { k: 1 },
            Op::Reopen,
            Op::Get { k: 0 },
            Op::Get { k: 1 },
            Op::Clear,
            Op::Get { k: 0 },
        ];
        v.push(History { label: format!("directed:disk-deep-subdirectories/levels={levels}"), target: Target::Disk(disk(levels, false)), universe: 3, ops, zero_limit_config: false });
    }
    // 9. limits of 0 (just outside "from 1 up"): refused by the constructor, or accepted and then kept
    for (label, max_entries, max_memory) in [("max_entries=0", 0usize, None), ("max_memory_bytes=0", 4usize, Some(0usize)), ("max_entries=0,max_memory_bytes=0", 0, Some(0))] {
        for policy in ["Lru", "Fifo"] {
            let ops = vec![
                Op::Put { k: 0, len: 0, tag: 980_001, ttl: Ttl::Default },
                Op::Put { k: 1, len: 1, tag: 980_002, ttl: Ttl::Long },
                Op::Get { k: 1 },
                Op::Put { k: 2, len: 20, tag: 980_003, ttl: Ttl::Default },
                Op::Put { k: 1, len: 2, tag: 980_004, ttl: Ttl::Default },
                Op::Size,
                Op::IsEmpty,
                Op::Stats,
            ];
            v.push(History { label: format!("directed:zero-limit-config/{label}/{policy}"), target: Target::Memory(mem(policy, max_entries, max_memory, true)), universe: 3, ops, zero_limit_config: true });
        }
    }
    v
}

fn install_noop_sync() -> Option<tempfile::TempDir> {
    // DiskCache::new_with_background_tasks spawns a task that executes the external
    // `sync` command (flushes every filesystem of the machine) — irrelevant for the
    // property and arbitrarily slow on a busy host. Shadow it with /bin/true.
    let dir = tempfile::Builder::new().prefix("vh-c10-bin-").tempdir().ok()?;
    let truebin = ["/bin/true", "/usr/bin/true"].into_iter().find(|p| std::path::Path::new(p).exists())?;
    std::os::unix::fs::symlink(truebin, dir.path().join("sync")).ok()?;
    let old = std::env::var("PATH").unwrap_or_default();
    // SAFETY: called at the very start of main, before any other thread exists.
    unsafe { std::env::set_var("PATH", format!("{}:{old}", dir.path().display())) };
    Some(dir)
}

fn main() {
    let fake_bin = install_noop_sync();
    let ctx = Ctx::init("C10", "exploration");
    ctx.set_rule("sequential histories of 30-300 operations (put / put_with_ttl 3600 s | 0 | few ms+sleep / get / contains / remove / clear / size / stats, disk: + drop-and-recreate) judged against a reference map; memory grid = 5 policies x max_entries {1,2,3,8,64} x max_memory_bytes {None,1,64,1000,10^6}, value sizes 0..2x limit, key universe 1.5-4x capacity; non-trivial = key population > capacity or byte budget < bytes put (memory), at least one drop-and-recreate (disk); distinct by hash of (configuration, operation list)");
    ctx.assume("std::time clocks do not jump by more than 200 ms during a run (short TTLs are judged only 200 ms after their deadline; all other TTLs are 0 or 3600 s)");
    ctx.assume("usage figure = sum of value lengths of retrievable entries (what stats().memory_usage_bytes documents)");
    if fake_bin.is_none() {
        ctx.obs("harness.noop_sync_not_installed", 1);
    }

    if let Some(detail) = ctx.replay_detail() {
        match serde_json::from_value::<History>(detail.get("history").cloned().unwrap_or_default()) {
            Ok(h) => {
                let rt = tokio::runtime::Builder::new_current_thread().enable_all().build().expect("runtime");
                run_history(&ctx, &rt, &h);
                // a single replayed history cannot reach the distinct-case floor on its own
                ctx.nontrivial(1);
                ctx.nontrivial(2);
            }
            Err(e) => ctx.inconclusive(&format!("replay file carries no history: {e}")),
        }
        drop(fake_bin);
        ctx.finish();
    }

    let n_mem = ctx.pick(2500usize, 21_000);
    let n_disk = ctx.pick(1000usize, 9_000);
    let threads = 16usize;
    let dir_histories = directed();
    // plan: directed histories first, then memory and disk histories interleaved so that
    // all threads share the slow (fsync-bound) disk ones
    #[derive(Clone, Copy)]
    enum Plan {
        Directed(usize),
        Memory(usize),
        Disk(usize),
    }
    let mut plan: Vec<Plan> = (0..dir_histories.len()).map(Plan::Directed).collect();
    {
        let period = ((n_mem + n_disk) / n_disk.max(1)).max(1);
        let (mut m, mut d) = (0usize, 0usize);
        while m < n_mem || d < n_disk {
            let pos = m + d;
            if d < n_disk && (pos % period == period - 1 || m >= n_mem) {
                plan.push(Plan::Disk(d));
                d += 1;
            } else {
                plan.push(Plan::Memory(m));
                m += 1;
            }
        }
    }
    let next = std::sync::atomic::AtomicUsize::new(0);
    let deadline_s = ctx.pick(90.0, 560.0) * Ctx::wall_scale();
    std::thread::scope(|s| {
        for _ in 0..threads {
            let ctx = &ctx;
            let next = &next;
            let plan = &plan;
            let dir_histories = &dir_histories;
            s.spawn(move || {
                let rt = match tokio::runtime::Builder::new_current_thread().enable_all().build() {
                    Ok(rt) => rt,
                    Err(e) => {
                        ctx.inconclusive(&format!("cannot build tokio runtime: {e}"));
                        return;
                    }
                };
                loop {
                    let i = next.fetch_add(1, Ordering::Relaxed);
                    let Some(item) = plan.get(i) else { break };
                    if ctx.elapsed_s() > deadline_s {
                        ctx.obs("histories.skipped_budget_exhausted", 1);
                        continue;
                    }
                    let h = match *item {
                        Plan::Directed(d) => dir_histories[d].clone(),
                        Plan::Memory(m) => gen_memory(&mut ctx.rng(1_000_000 + m as u64), m, (m as u64 + 1) << 20),
                        Plan::Disk(d) => gen_disk(&mut ctx.rng(2_000_000 + d as u64), d, (d as u64 + 1) << 20),
                    };
                    run_history(ctx, &rt, &h);
                }
            });
        }
    });

    // self-checks: the run must have seen what it claims to test
    let need = [
        ("MemoryCache.live_entry_dropped(eviction_observed)", "no eviction was observed in the memory cache"),
        ("memory.limit_checks", "no limit check was executed"),
        ("MemoryCache.checkpoints", "no memory checkpoint was executed"),
        ("DiskCache.checkpoints", "no disk checkpoint was executed"),
        ("disk.op.reopen", "no drop-and-recreate was executed"),
        ("disk.live_entry_served_by_new_instance", "no live entry was ever read back through a new disk-cache instance"),
        ("MemoryCache.op.put.default_ttl_configured_zero", "no plain put ran on a memory cache configured with a zero default TTL"),
        ("DiskCache.op.put.default_ttl_configured_zero", "no plain put ran on a disk cache configured with a zero default TTL"),
        ("config.memory.through_builder_methods", "no memory cache was configured through the builder methods"),
        ("config.disk.through_builder_methods", "no disk cache was configured through the builder methods"),
        ("config.disk.max_disk_bytes_set.with_cleanup_task", "no disk history ran the cleanup task with a byte budget"),
        ("config.disk.subdirectory_levels.3-8", "no disk history used 3-8 sub-directory levels"),
        ("config.disk.subdirectory_levels.above-8", "no disk history used more than 8 sub-directory levels"),
        ("disk.get.hit_live_value_of_16MiB_or_more(large-file read path)", "no value of 16 MiB or more was read back from the disk cache"),
    ];
    for (k, why) in need {
        if ctx.get_obs(k) == 0 {
            ctx.inconclusive(why);
        }
    }
    for name in ["MemoryCache", "DiskCache"] {
        if ctx.get_obs(&format!("{name}.is_empty.agrees.true")) == 0 || ctx.get_obs(&format!("{name}.is_empty.agrees.false")) == 0 {
            ctx.inconclusive(&format!("is_empty() of {name} was not judged on both an empty and a non-empty cache"));
        }
    }
    if ctx.get_obs("zero_limit_config.accepted_and_run_under_the_usual_oracle") + ctx.get_obs("zero_limit_config.refused_by_constructor") == 0 {
        ctx.inconclusive("no zero-limit configuration was tried");
    }
    let hits = ctx.get_obs("MemoryCache.get.hit_live_value");
    let misses = ctx.get_obs("MemoryCache.get.miss_on_live_key");
    ctx.set_extra(
        "memory_hit_ratio_on_live_keys(observation)",
        json!(if hits + misses > 0 { hits as f64 / (hits + misses) as f64 } else { 0.0 }),
    );
    ctx.set_extra(
        "grid",
        json!({"policies": POLICIES, "max_entries": MAX_ENTRIES, "max_memory_bytes": ["None", 1, 64, 1000, 1_000_000], "memory_histories": n_mem, "disk_histories": n_disk, "directed_histories": dir_histories.len()}),
    );
    drop(fake_bin);
    ctx.finish();
}
