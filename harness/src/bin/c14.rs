//! C14 — retries are bounded, ordered and respect back-off limits.
//!
//! Enumeration of outcome sequences × retry policies under tokio's paused
//! (virtual) clock. The closure handed to `RetryPolicy::execute` is the
//! monitor: it stamps every invocation (start/end, `tokio::time::Instant`) and
//! plays a scripted outcome. The oracle is written from the property
//! statement only:
//!
//!  * at most `max_attempts + 1` invocations;
//!  * no invocation after `Ok` or after a non-retryable error, and no giving
//!    up on a retryable error while retries remain;
//!  * the returned value is the outcome of the stopping invocation;
//!  * gap after a rate-limited outcome with hint h: h <= gap <= 1.3 h;
//!  * any other gap: gap <= 1.3 × max_backoff; for *regular* policies (finite
//!    multiplier >= 1, initial <= max) the gap lies on the exponential
//!    schedule min(initial × multiplier^j, max) (× [1, 1.3]) for some exponent
//!    j between "number of computed back-offs so far" and "number of failed
//!    attempts so far" (both readings of "exponentially growing" are accepted);
//!  * no panic, no wait beyond the sum of the allowed delays (virtual
//!    watchdog), no more than 10^6 polls.
//!
//! `RetryPolicy::from_env` is exercised in child processes (one per hostile
//! environment), which run the same oracle and report JSON on stdout.
//! A small real-time section drives `CdnClient::download` against a loopback
//! mock for the HTTP-status → retryable / non-retryable mapping.

use cascette_protocol::error::ProtocolError;
use cascette_protocol::retry::RetryPolicy;
use futures::FutureExt;
use serde_json::{Value, json};
use std::cell::RefCell;
use std::collections::BTreeMap;
use std::future::Future;
use std::panic::AssertUnwindSafe;
use std::pin::Pin;
use std::rc::Rc;
use std::sync::atomic::{AtomicUsize, Ordering};
use std::task::{Context, Poll};
use std::time::Duration;
use tokio::time::Instant;
use vh::{Ctx, Rng, fnv64, mix64};

#[path = "c14/ext.rs"]
mod ext;

const MS: u128 = 1_000_000;
/// tokio's timer wheel has 1 ms granularity: a sleep may end up to 1 ms late
/// in virtual time. 2 ms are granted on every upper bound.
const TOL_HI_NS: u128 = 2 * MS;
/// Margin of the virtual watchdog beyond the sum of all allowed delays.
const MARGIN: Duration = Duration::from_secs(3600);
/// Virtual horizon: configured waits beyond this are not measured (tokio caps
/// far-future sleeps), only "did not return early" is judged.
const HORIZON: Duration = Duration::from_secs(48 * 3600);
const POLL_CAP: u64 = 1_000_000;

const HINTS: [Duration; 3] = [Duration::ZERO, Duration::from_secs(1), Duration::from_secs(3600)];

#[derive(Clone, Copy, PartialEq, Eq, Debug, Hash)]
enum Sym {
    Ok,
    NonRetry,
    Retry,
    Hint(u8),
}

impl Sym {
    fn is_go(self) -> bool {
        matches!(self, Sym::Retry | Sym::Hint(_))
    }
    fn code(self) -> &'static str {
        match self {
            Sym::Ok => "K",
            Sym::NonRetry => "N",
            Sym::Retry => "R",
            Sym::Hint(0) => "H0",
            Sym::Hint(1) => "H1s",
            Sym::Hint(_) => "H1h",
        }
    }
    fn parse(s: &str) -> Option<Sym> {
        Some(match s {
            "K" => Sym::Ok,
            "N" => Sym::NonRetry,
            "R" => Sym::Retry,
            "H0" => Sym::Hint(0),
            "H1s" => Sym::Hint(1),
            "H1h" => Sym::Hint(2),
            _ => return None,
        })
    }
}

const GO: [Sym; 4] = [Sym::Retry, Sym::Hint(0), Sym::Hint(1), Sym::Hint(2)];
const ALL: [Sym; 6] = [Sym::Ok, Sym::NonRetry, Sym::Retry, Sym::Hint(0), Sym::Hint(1), Sym::Hint(2)];

/// Scripted outcome at position `pos` (deterministic in (sym, pos, salt)); the
/// Debug rendering is the identity used by the "returned value" oracle.
fn make_outcome(sym: Sym, pos: usize, salt: u64) -> Result<u64, ProtocolError> {
    let id = salt.wrapping_mul(16).wrapping_add(pos as u64) % 1_000_000_007;
    match sym {
        Sym::Ok => Ok(id),
        Sym::NonRetry => Err(match (salt as usize + pos) % 6 {
            0 => ProtocolError::Parse(format!("nr{id}")),
            1 => ProtocolError::InvalidKey,
            2 => ProtocolError::InvalidEndpoint(format!("nr{id}")),
            3 => ProtocolError::AllHostsFailed,
            4 => ProtocolError::Other(format!("nr{id}")),
            _ => ProtocolError::RangeNotSupported,
        }),
        Sym::Retry => Err(match (salt as usize + pos) % 4 {
            0 => ProtocolError::Timeout,
            1 => ProtocolError::ServiceUnavailable,
            2 => ProtocolError::Network(std::io::Error::new(std::io::ErrorKind::ConnectionReset, format!("rt{id}"))),
            _ => ProtocolError::RateLimited { retry_after: None },
        }),
        Sym::Hint(h) => Err(ProtocolError::RateLimited { retry_after: Some(HINTS[h as usize % 3]) }),
    }
}

fn describe(r: &Result<u64, ProtocolError>) -> String {
    match r {
        Ok(v) => format!("Ok({v})"),
        Err(e) => format!("Err({e:?})"),
    }
}

#[derive(Clone, Debug)]
struct Pol {
    max_attempts: u32,
    initial: Duration,
    max: Duration,
    mult: f64,
    jitter: bool,
}

impl Pol {
    fn to_policy(&self) -> RetryPolicy {
        RetryPolicy { max_attempts: self.max_attempts, initial_backoff: self.initial, max_backoff: self.max, multiplier: self.mult, jitter: self.jitter }
    }
    fn from_policy(p: &RetryPolicy) -> Pol {
        Pol { max_attempts: p.max_attempts, initial: p.initial_backoff, max: p.max_backoff, mult: p.multiplier, jitter: p.jitter }
    }
    fn to_json(&self) -> Value {
        json!({"max_attempts": self.max_attempts, "initial_backoff_ns": self.initial.as_nanos().to_string(), "max_backoff_ns": self.max.as_nanos().to_string(), "multiplier": format!("{:?}", self.mult), "jitter": self.jitter})
    }
    fn from_json(v: &Value) -> Option<Pol> {
        let ns = |k: &str| -> Option<Duration> {
            let n: u128 = v.get(k)?.as_str()?.parse().ok()?;
            Some(Duration::new((n / 1_000_000_000) as u64, (n % 1_000_000_000) as u32))
        };
        Some(Pol {
            max_attempts: v.get("max_attempts")?.as_u64()? as u32,
            initial: ns("initial_backoff_ns")?,
            max: ns("max_backoff_ns")?,
            mult: v.get("multiplier")?.as_str()?.parse().ok()?,
            jitter: v.get("jitter")?.as_bool()?,
        })
    }
    fn hash(&self) -> u64 {
        mix64(
            mix64(u64::from(self.max_attempts), self.initial.as_nanos() as u64),
            mix64(mix64(self.max.as_nanos() as u64, self.mult.to_bits()), u64::from(self.jitter)),
        )
    }
    /// finite multiplier >= 1 and initial <= max: the exponential schedule is well defined
    fn regular(&self) -> bool {
        self.mult.is_finite() && self.mult >= 1.0 && self.initial <= self.max
    }
    fn mult_class(&self) -> String {
        if self.mult.is_nan() {
            "nan".into()
        } else if self.mult.is_infinite() {
            if self.mult > 0.0 { "+inf".into() } else { "-inf".into() }
        } else if self.mult < 0.0 {
            "negative".into()
        } else if self.mult == 0.0 {
            "zero".into()
        } else if self.mult < 1.0 {
            "(0,1)".into()
        } else if self.mult == 1.0 {
            "one".into()
        } else if self.mult > 1e100 {
            "huge".into()
        } else {
            ">1".into()
        }
    }
}

struct HardStop;
struct PollCapHit;

struct PollCount<F> {
    inner: Pin<Box<F>>,
    polls: Rc<RefCell<u64>>,
}

impl<F: Future> Future for PollCount<F> {
    type Output = Result<F::Output, PollCapHit>;
    fn poll(mut self: Pin<&mut Self>, cx: &mut Context<'_>) -> Poll<Self::Output> {
        {
            let mut p = self.polls.borrow_mut();
            *p += 1;
            if *p > POLL_CAP {
                return Poll::Ready(Err(PollCapHit));
            }
        }
        self.inner.as_mut().poll(cx).map(Ok)
    }
}

#[derive(Debug)]
enum Ended {
    Returned(String),
    Panic(String),
    VirtualTimeout,
    PollCap,
    HardStop,
}

struct ExecObs {
    starts: Vec<Instant>,
    ends: Vec<Instant>,
    ended: Ended,
    total: Duration,
    polls: u64,
}

thread_local! {
    static LAST_PANIC: RefCell<Option<String>> = const { RefCell::new(None) };
}

fn install_panic_hook() {
    std::panic::set_hook(Box::new(|info| {
        let msg = if let Some(s) = info.payload().downcast_ref::<&str>() {
            (*s).to_string()
        } else if let Some(s) = info.payload().downcast_ref::<String>() {
            s.clone()
        } else {
            "<non-string payload>".to_string()
        };
        let loc = info.location().map(|l| format!("{}:{}", l.file(), l.line())).unwrap_or_default();
        LAST_PANIC.with(|c| *c.borrow_mut() = Some(format!("{msg} @ {loc}")));
    }));
}

fn sat_mul13(d: Duration) -> u128 {
    d.as_nanos().saturating_mul(13) / 10
}

/// Upper bound on the virtual time an execution may legitimately take.
fn allowed_total(pol: &Pol, seq: &[Sym], op: Duration) -> u128 {
    let mut total: u128 = 0;
    let n = (u64::from(pol.max_attempts) + 1).min(seq.len() as u64 + 1) as usize;
    for i in 0..n {
        total = total.saturating_add(op.as_nanos());
        let sym = seq.get(i).copied().unwrap_or(Sym::Retry);
        let d = match sym {
            Sym::Hint(h) => sat_mul13(HINTS[h as usize % 3]),
            _ => sat_mul13(pol.max),
        };
        total = total.saturating_add(d).saturating_add(TOL_HI_NS);
    }
    total
}

fn dur_from_ns(ns: u128) -> Duration {
    let secs = (ns / 1_000_000_000).min(u128::from(u64::MAX)) as u64;
    Duration::new(secs, (ns % 1_000_000_000) as u32)
}

async fn run_one(pol: &Pol, seq: &[Sym], salt: u64, op: Duration) -> ExecObs {
    let policy = pol.to_policy();
    let state: Rc<RefCell<(Vec<Instant>, Vec<Instant>)>> = Rc::new(RefCell::new((Vec::new(), Vec::new())));
    let polls = Rc::new(RefCell::new(0u64));
    // an execution that asks for this many invocations is cut (never reached by a bounded implementation)
    let hard_cap = (u64::from(pol.max_attempts) + 1).min(seq.len() as u64) as usize + 6;
    let allowed = allowed_total(pol, seq, op);
    let vdeadline = dur_from_ns(allowed).saturating_add(MARGIN).min(HORIZON);
    let t0 = Instant::now();
    let st2 = Rc::clone(&state);
    let fut = policy.execute(move || {
        let st = Rc::clone(&st2);
        let idx = st.borrow().0.len();
        st.borrow_mut().0.push(Instant::now());
        if idx >= hard_cap {
            std::panic::panic_any(HardStop);
        }
        let sym = seq.get(idx).copied().unwrap_or(Sym::Retry);
        let out = make_outcome(sym, idx, salt);
        async move {
            if !op.is_zero() {
                tokio::time::sleep(op).await;
            }
            st.borrow_mut().1.push(Instant::now());
            out
        }
    });
    let counted = PollCount { inner: Box::pin(fut), polls: Rc::clone(&polls) };
    LAST_PANIC.with(|c| *c.borrow_mut() = None);
    let r = AssertUnwindSafe(tokio::time::timeout(vdeadline, counted)).catch_unwind().await;
    let ended = match r {
        Ok(Ok(Ok(res))) => Ended::Returned(describe(&res)),
        Ok(Ok(Err(PollCapHit))) => Ended::PollCap,
        Ok(Err(_elapsed)) => Ended::VirtualTimeout,
        Err(payload) => {
            if payload.downcast_ref::<HardStop>().is_some() {
                Ended::HardStop
            } else {
                let hook = LAST_PANIC.with(|c| c.borrow_mut().take());
                let msg = hook.unwrap_or_else(|| {
                    payload.downcast_ref::<&str>().map(|s| (*s).to_string()).or_else(|| payload.downcast_ref::<String>().cloned()).unwrap_or_else(|| "<panic>".into())
                });
                Ended::Panic(msg)
            }
        }
    };
    let total = Instant::now().saturating_duration_since(t0);
    let (starts, ends) = {
        let g = state.borrow();
        (g.0.clone(), g.1.clone())
    };
    let p = *polls.borrow();
    ExecObs { starts, ends, ended, total, polls: p }
}

fn panic_class(msg: &str) -> &'static str {
    if msg.contains("value is negative") {
        "Duration::from_secs_f64-negative"
    } else if msg.contains("too big or NaN") || msg.contains("overflow or NaN") {
        "Duration::from_secs_f64-overflow-or-nan"
    } else if msg.contains("overflow when adding durations") {
        "Duration-add-overflow"
    } else if msg.contains("overflow when adding duration to instant") {
        "Instant-add-overflow"
    } else if msg.contains("attempt to") && msg.contains("overflow") {
        "arithmetic-overflow"
    } else {
        "other"
    }
}

#[derive(Default)]
struct Stats {
    obs: BTreeMap<String, u64>,
    obs_max: BTreeMap<String, u64>,
    evals: u64,
    nontrivial: Vec<u64>,
    jitter_ratio_min_ppm: Option<u64>,
    jitter_ratio_max_ppm: Option<u64>,
}

impl Stats {
    fn inc(&mut self, k: &str, n: u64) {
        *self.obs.entry(k.to_string()).or_insert(0) += n;
    }
    fn max(&mut self, k: &str, n: u64) {
        let e = self.obs_max.entry(k.to_string()).or_insert(0);
        if n > *e {
            *e = n;
        }
    }
    fn flush(&mut self, ctx: &Ctx) {
        for (k, v) in std::mem::take(&mut self.obs) {
            ctx.obs(&k, v);
        }
        for (k, v) in std::mem::take(&mut self.obs_max) {
            ctx.obs_max(&k, v);
        }
        ctx.add_evals(self.evals);
        self.evals = 0;
        ctx.add_nontrivial(std::mem::take(&mut self.nontrivial));
    }
}

struct Finding {
    sig: String,
    summary: String,
    detail: Value,
}

fn case_detail(pol: &Pol, seq: &[Sym], salt: u64, op: Duration, obs: &ExecObs, extra: Value) -> Value {
    let gaps: Vec<String> = (0..obs.starts.len().saturating_sub(1)).filter(|&i| i < obs.ends.len()).map(|i| format!("{:?}", obs.starts[i + 1].saturating_duration_since(obs.ends[i]))).collect();
    json!({
        "policy": pol.to_json(),
        "sequence": seq.iter().map(|s| s.code()).collect::<Vec<_>>(),
        "salt": salt,
        "op_ns": op.as_nanos() as u64,
        "invocations": obs.starts.len(),
        "gaps": gaps,
        "ended": format!("{:?}", obs.ended),
        "total_virtual": format!("{:?}", obs.total),
        "polls": obs.polls,
        "extra": extra,
    })
}

/// The oracle. Everything here is derived from the statement (see module doc).
fn judge(pol: &Pol, seq: &[Sym], salt: u64, op: Duration, obs: &ExecObs, st: &mut Stats) -> Vec<Finding> {
    let mut out: Vec<Finding> = Vec::new();
    let mut push = |sig: String, summary: &str, extra: Value| {
        out.push(Finding { sig, summary: summary.to_string(), detail: case_detail(pol, seq, salt, op, obs, extra) });
    };
    let n = obs.starts.len();
    let bound = u64::from(pol.max_attempts) + 1;
    let stop_idx = seq.iter().position(|s| !s.is_go());
    let sym_at = |i: usize| seq.get(i).copied().unwrap_or(Sym::Retry);

    // ---- how the call ended
    match &obs.ended {
        Ended::Panic(msg) => {
            let class = panic_class(msg);
            st.inc(&format!("panic.{class}"), 1);
            push(format!("C14|RetryPolicy::execute|panic|{class}"), "RetryPolicy::execute panicked for a constructible policy", json!({"panic": msg, "multiplier_class": pol.mult_class(), "initial>max": pol.initial > pol.max}));
        }
        Ended::VirtualTimeout => {
            let allowed = allowed_total(pol, seq, op);
            if dur_from_ns(allowed).saturating_add(MARGIN) > HORIZON {
                // the *configured* delays exceed the measurable horizon: not judged
                st.inc("ended.configured_wait_beyond_horizon(not judged)", 1);
            } else {
                push("C14|RetryPolicy::execute|waits-beyond-sum-of-allowed-delays".into(), "execute was still waiting one virtual hour after the sum of all allowed delays", json!({"allowed_total_ns": allowed.to_string()}));
            }
        }
        Ended::PollCap => push("C14|RetryPolicy::execute|more-than-1e6-timer-turns".into(), "execute needed more than 10^6 polls", json!({})),
        Ended::HardStop => {} // reported below as too many invocations
        Ended::Returned(_) => {}
    }

    // ---- number and order of invocations
    st.inc(&format!("invocations.{}", n.min(9)), 1);
    if n as u64 > bound {
        push("C14|RetryPolicy::execute|more-than-max_attempts+1-invocations".into(), "operation invoked more than max_attempts + 1 times", json!({"bound": bound}));
    }
    if let Some(si) = stop_idx {
        if n > si + 1 {
            let what = if sym_at(si) == Sym::Ok { "invoked-after-Ok" } else { "invoked-after-non-retryable-error" };
            push(format!("C14|RetryPolicy::execute|{what}"), "operation invoked again after the stopping outcome", json!({"stop_index": si}));
        }
    }
    let expected_n: u64 = match stop_idx {
        Some(si) => (si as u64 + 1).min(bound),
        None => bound.min(seq.len() as u64 + 6),
    };
    let normal_end = matches!(obs.ended, Ended::Returned(_));
    if normal_end && (n as u64) < expected_n {
        push("C14|RetryPolicy::execute|gave-up-on-retryable-error-before-retries-exhausted".into(), "execute returned after a retryable error although retries remained", json!({"expected_invocations": expected_n}));
    }

    // ---- returned value = outcome of the stopping invocation
    if let Ended::Returned(got) = &obs.ended {
        if n >= 1 && n as u64 == expected_n {
            let want = describe(&make_outcome(sym_at(n - 1), n - 1, salt));
            let class = match sym_at(n - 1) {
                Sym::Ok => "first-Ok",
                Sym::NonRetry => "first-non-retryable-error",
                _ => "last-error",
            };
            st.inc(&format!("returned.{class}"), 1);
            if *got != want {
                push(format!("C14|RetryPolicy::execute|returned-value-is-not-the-stopping-outcome|{class}"), "returned value differs from the outcome of the stopping invocation", json!({"got": got, "want": want}));
            }
        }
    }

    // ---- gaps between attempts
    let mut computed_backoffs_before: u32 = 0; // non-hint waits so far
    let max_hi = sat_mul13(pol.max).saturating_add(TOL_HI_NS);
    for i in 0..n.saturating_sub(1) {
        if i >= obs.ends.len() {
            break;
        }
        let gap = obs.starts[i + 1].saturating_duration_since(obs.ends[i]).as_nanos();
        let sym = sym_at(i);
        if !sym.is_go() {
            break; // already reported as invoked-after-stop
        }
        st.inc("gaps.measured", 1);
        st.max("gaps.max_ms", (gap / MS).min(u128::from(u64::MAX)) as u64);
        match sym {
            Sym::Hint(h) => {
                let hint = HINTS[h as usize % 3].as_nanos();
                st.inc(&format!("gaps.after_hint.{}", sym.code()), 1);
                if gap < hint {
                    push("C14|RetryPolicy::execute|gap-shorter-than-Retry-After-hint".into(), "waited less than the server's Retry-After hint", json!({"attempt": i, "gap_ns": gap.to_string(), "hint_ns": hint.to_string()}));
                } else if gap > (hint * 13 / 10).saturating_add(TOL_HI_NS) {
                    push("C14|RetryPolicy::execute|gap-longer-than-Retry-After-hint+30%".into(), "waited more than the Retry-After hint plus 30 % jitter", json!({"attempt": i, "gap_ns": gap.to_string(), "hint_ns": hint.to_string()}));
                } else if gap == hint {
                    st.inc("gaps.after_hint.exact", 1);
                } else {
                    st.inc("gaps.after_hint.jittered", 1);
                }
            }
            _ => {
                st.inc("gaps.after_backoff", 1);
                let horizon_hit = max_hi > HORIZON.as_nanos();
                if gap > max_hi && !horizon_hit {
                    let which = if i == 0 && pol.initial > pol.max { "first-delay-with-initial>max" } else { "later-delay" };
                    push(format!("C14|RetryPolicy::execute|backoff-above-max_backoff+30%|{which}"), "delay between attempts exceeds max_backoff × 1.3", json!({"attempt": i, "gap_ns": gap.to_string(), "max_backoff_ns": pol.max.as_nanos().to_string()}));
                } else if pol.regular() {
                    // exponential schedule, exponent j in [computed back-offs so far, failed attempts so far]
                    let mut on_schedule = false;
                    let mut best_ratio: Option<f64> = None;
                    for j in computed_backoffs_before..=(i as u32) {
                        // initial × multiplier^j clamped; 0 stays 0, an overflowing product is clamped to max
                        let base_s = if pol.initial.is_zero() { 0.0 } else { (pol.initial.as_secs_f64() * pol.mult.powi(j as i32)).min(pol.max.as_secs_f64()) };
                        let base_ns = base_s * 1e9;
                        let lo = (base_ns * (1.0 - 1e-6) - 1000.0).max(0.0).min(HORIZON.as_nanos() as f64);
                        let hi = base_ns * 1.3 * (1.0 + 1e-6) + TOL_HI_NS as f64;
                        let g = gap as f64;
                        if g >= lo && g <= hi {
                            on_schedule = true;
                            if base_ns >= 100.0 * MS as f64 {
                                best_ratio = Some(g / base_ns);
                            }
                            break;
                        }
                    }
                    if on_schedule {
                        st.inc("gaps.after_backoff.on_exponential_schedule", 1);
                        if let (Some(r), true) = (best_ratio, pol.jitter) {
                            let ppm = (r * 1e6) as u64;
                            st.jitter_ratio_min_ppm = Some(st.jitter_ratio_min_ppm.map_or(ppm, |m| m.min(ppm)));
                            st.jitter_ratio_max_ppm = Some(st.jitter_ratio_max_ppm.map_or(ppm, |m| m.max(ppm)));
                        }
                    } else {
                        push("C14|RetryPolicy::execute|backoff-not-on-exponential-schedule".into(), "delay is not initial × multiplier^j clamped to max_backoff (+≤30 %) for any admissible exponent j", json!({"attempt": i, "gap_ns": gap.to_string(), "j_range": [computed_backoffs_before, i]}));
                    }
                } else {
                    st.inc("gaps.after_backoff.irregular_policy(upper bound only)", 1);
                }
                computed_backoffs_before += 1;
            }
        }
    }
    out
}

/// All sequences for a policy: go-prefix of length L (0..=m) + stop symbol, and
/// all-go prefixes of length m+1 followed by one more symbol (length m+2) that
/// a bounded implementation never looks at.
fn for_each_sequence(m: u32, mut f: impl FnMut(&[Sym], u64)) {
    let m = m as usize;
    let mut seq: Vec<Sym> = Vec::with_capacity(m + 2);
    let mut counter: u64 = 0;
    for len in 0..=(m + 1) {
        let total = 4u64.pow(len as u32);
        for code in 0..total {
            seq.clear();
            let mut c = code;
            for _ in 0..len {
                seq.push(GO[(c % 4) as usize]);
                c /= 4;
            }
            if len <= m {
                for stop in [Sym::Ok, Sym::NonRetry] {
                    seq.push(stop);
                    f(&seq, counter);
                    counter += 1;
                    seq.pop();
                }
            } else {
                seq.push(ALL[(code % 6) as usize]);
                f(&seq, counter);
                counter += 1;
            }
        }
    }
}

fn sequences_per_policy(m: u32) -> u64 {
    let mut n = 0;
    for_each_sequence(m, |_, _| n += 1);
    n
}

fn grid() -> Vec<Pol> {
    let backoffs = [Duration::ZERO, Duration::from_millis(1), Duration::from_millis(100), Duration::from_secs(10)];
    let mults = [0.0, 0.5, 1.0, 2.0, 10.0, 1e300, f64::NAN, -1.0, f64::INFINITY];
    let mut v = Vec::new();
    for max_attempts in 0..=5u32 {
        for &initial in &backoffs {
            for &max in &backoffs {
                for &mult in &mults {
                    for jitter in [false, true] {
                        v.push(Pol { max_attempts, initial, max, mult, jitter });
                    }
                }
            }
        }
    }
    v
}

fn report(ctx: &Ctx, findings: Vec<Finding>) {
    for f in findings {
        ctx.violation(&f.sig, &f.summary, f.detail);
    }
}

fn run_policy_all_sequences(pol: &Pol, st: &mut Stats, findings: &mut Vec<Finding>, max_findings: usize) {
    let rt = match tokio::runtime::Builder::new_current_thread().enable_time().start_paused(true).build() {
        Ok(rt) => rt,
        Err(_) => return,
    };
    let ph = pol.hash();
    rt.block_on(async {
        let mut cases: Vec<(Vec<Sym>, u64)> = Vec::new();
        for_each_sequence(pol.max_attempts, |s, c| cases.push((s.to_vec(), c)));
        for (seq, counter) in cases {
            let op = if counter % 3 == 1 { Duration::from_millis(7) } else { Duration::ZERO };
            let salt = counter;
            let obs = run_one(pol, &seq, salt, op).await;
            st.evals += 1;
            let goes_before_stop = seq.iter().take_while(|s| s.is_go()).count();
            if goes_before_stop >= 1 && pol.max_attempts >= 1 {
                let sh = fnv64(seq.iter().map(|s| s.code()).collect::<Vec<_>>().join(",").as_bytes());
                st.nontrivial.push(mix64(ph, mix64(sh, op.as_nanos() as u64)));
            }
            let stop_class = match seq.iter().find(|s| !s.is_go()) {
                Some(Sym::Ok) => "sequence.stops_with_Ok",
                Some(_) => "sequence.stops_with_non_retryable",
                None => "sequence.all_retryable",
            };
            st.inc(stop_class, 1);
            let f = judge(pol, &seq, salt, op, &obs, st);
            for x in f {
                if findings.len() < max_findings || !findings.iter().any(|y| y.sig == x.sig) {
                    findings.push(x);
                } else {
                    // keep occurrence counts without keeping the detail
                    findings.push(Finding { sig: x.sig, summary: x.summary, detail: Value::Null });
                }
            }
        }
    });
}

// ---------------------------------------------------------------- env child

const ENV_VARS: [&str; 5] = ["CASCETTE_MAX_RETRIES", "CASCETTE_RETRY_BACKOFF", "CASCETTE_MAX_BACKOFF", "CASCETTE_BACKOFF_MULTIPLIER", "CASCETTE_RETRY_JITTER"];

fn env_cases() -> Vec<Vec<(&'static str, &'static str)>> {
    let u64max = "18446744073709551615";
    let mut v: Vec<Vec<(&'static str, &'static str)>> = vec![vec![]];
    for s in ["0", "5", "-1", "4294967295", "4294967296", "abc", "", " 3", "3.5", "+2"] {
        v.push(vec![("CASCETTE_MAX_RETRIES", s), ("CASCETTE_RETRY_BACKOFF", "1")]);
    }
    for s in ["0", "1", u64max, "-5", "1e3", "NaN", "99999999999999999999"] {
        v.push(vec![("CASCETTE_RETRY_BACKOFF", s)]);
    }
    for s in ["0", u64max, "-1", "x", "1"] {
        v.push(vec![("CASCETTE_MAX_BACKOFF", s)]);
    }
    for s in ["NaN", "nan", "inf", "-inf", "infinity", "-1", "-0", "0", "1e400", "1e-400", "-1e300", "2,5", "0x10", "1e300", "0.5"] {
        v.push(vec![("CASCETTE_BACKOFF_MULTIPLIER", s)]);
        v.push(vec![("CASCETTE_BACKOFF_MULTIPLIER", s), ("CASCETTE_RETRY_BACKOFF", "0"), ("CASCETTE_RETRY_JITTER", "false")]);
    }
    for s in ["true", "false", "TRUE", "1", "yes", ""] {
        v.push(vec![("CASCETTE_RETRY_JITTER", s)]);
    }
    // combinations aimed at the f64 <-> Duration conversions
    v.push(vec![("CASCETTE_MAX_BACKOFF", u64max), ("CASCETTE_BACKOFF_MULTIPLIER", "1e300")]);
    v.push(vec![("CASCETTE_MAX_BACKOFF", u64max), ("CASCETTE_BACKOFF_MULTIPLIER", "1e300"), ("CASCETTE_RETRY_JITTER", "false")]);
    v.push(vec![("CASCETTE_MAX_BACKOFF", u64max), ("CASCETTE_BACKOFF_MULTIPLIER", "inf"), ("CASCETTE_RETRY_JITTER", "false")]);
    v.push(vec![("CASCETTE_RETRY_BACKOFF", u64max), ("CASCETTE_MAX_BACKOFF", u64max), ("CASCETTE_BACKOFF_MULTIPLIER", "2")]);
    v.push(vec![("CASCETTE_RETRY_BACKOFF", u64max), ("CASCETTE_MAX_BACKOFF", "1"), ("CASCETTE_BACKOFF_MULTIPLIER", "2")]);
    v.push(vec![("CASCETTE_RETRY_BACKOFF", "20000"), ("CASCETTE_MAX_BACKOFF", "1"), ("CASCETTE_RETRY_JITTER", "false")]);
    v.push(vec![("CASCETTE_MAX_RETRIES", "4294967295"), ("CASCETTE_RETRY_BACKOFF", "0"), ("CASCETTE_MAX_BACKOFF", "0")]);
    v.push(vec![("CASCETTE_MAX_RETRIES", "5"), ("CASCETTE_RETRY_BACKOFF", "1"), ("CASCETTE_MAX_BACKOFF", "0"), ("CASCETTE_BACKOFF_MULTIPLIER", "-2.5")]);
    v.push(vec![("CASCETTE_MAX_RETRIES", "5"), ("CASCETTE_RETRY_BACKOFF", "3"), ("CASCETTE_MAX_BACKOFF", "3600"), ("CASCETTE_BACKOFF_MULTIPLIER", "1e308"), ("CASCETTE_RETRY_JITTER", "true")]);
    v
}

/// Child process: build the policy from the (hostile) environment, run a
/// bounded set of sequences under the same oracle, print one JSON line.
fn env_child_main() -> ! {
    install_panic_hook();
    let built = std::panic::catch_unwind(RetryPolicy::from_env);
    let mut st = Stats::default();
    let mut findings: Vec<Finding> = Vec::new();
    let mut pol_json = Value::Null;
    match built {
        Err(_) => {
            let msg = LAST_PANIC.with(|c| c.borrow_mut().take()).unwrap_or_default();
            findings.push(Finding { sig: "C14|RetryPolicy::from_env|panic".into(), summary: "from_env panicked".into(), detail: json!({"panic": msg}) });
        }
        Ok(Err(e)) => {
            st.inc("from_env.refused", 1);
            pol_json = json!({"refused": e.to_string()});
        }
        Ok(Ok(p)) => {
            let pol = Pol::from_policy(&p);
            pol_json = pol.to_json();
            // sequences: as for the grid, but the enumeration depth is capped at 3 retries
            // (a policy with 4 billion retries is legal; exhausting it is not the point)
            let depth = pol.max_attempts.min(3);
            let capped = Pol { max_attempts: depth, ..pol.clone() };
            let mut cases: Vec<(Vec<Sym>, u64)> = Vec::new();
            for_each_sequence(depth, |s, c| {
                // when the real bound is larger than the enumeration depth only sequences that stop are usable
                if pol.max_attempts == depth || s.iter().any(|x| !x.is_go()) {
                    cases.push((s.to_vec(), c));
                }
            });
            let _ = capped;
            if let Ok(rt) = tokio::runtime::Builder::new_current_thread().enable_time().start_paused(true).build() {
                rt.block_on(async {
                    for (seq, counter) in cases {
                        let op = if counter % 3 == 1 { Duration::from_millis(7) } else { Duration::ZERO };
                        let obs = run_one(&pol, &seq, counter, op).await;
                        st.evals += 1;
                        findings.extend(judge(&pol, &seq, counter, op, &obs, &mut st));
                    }
                });
            }
        }
    }
    let mut by_sig: BTreeMap<String, (String, Value, u64)> = BTreeMap::new();
    for f in findings {
        let e = by_sig.entry(f.sig).or_insert((f.summary, f.detail, 0));
        e.2 += 1;
    }
    let out = json!({
        "policy": pol_json,
        "evals": st.evals,
        "obs": st.obs,
        "obs_max": st.obs_max,
        "findings": by_sig.into_iter().map(|(sig, (summary, detail, count))| json!({"sig": sig, "summary": summary, "detail": detail, "count": count})).collect::<Vec<_>>(),
    });
    println!("C14CHILD {out}");
    std::process::exit(0);
}

fn env_section(ctx: &Ctx) {
    let exe = match std::env::current_exe() {
        Ok(p) => p,
        Err(e) => {
            ctx.inconclusive(&format!("current_exe failed: {e}"));
            return;
        }
    };
    let cases = env_cases();
    let results: Vec<(usize, Result<std::process::Output, std::io::Error>)> = std::thread::scope(|s| {
        let handles: Vec<_> = cases
            .iter()
            .enumerate()
            .map(|(i, case)| {
                let exe = exe.clone();
                s.spawn(move || {
                    let mut cmd = std::process::Command::new(exe);
                    cmd.arg("--c14-env-child");
                    for v in ENV_VARS {
                        cmd.env_remove(v);
                    }
                    for (k, v) in case {
                        cmd.env(k, v);
                    }
                    (i, cmd.output())
                })
            })
            .collect();
        handles.into_iter().filter_map(|h| h.join().ok()).collect()
    });
    let mut parsed_policies: Vec<Value> = Vec::new();
    for (i, r) in results {
        let case = &cases[i];
        let env_json: Value = json!(case.iter().map(|(k, v)| format!("{k}={v}")).collect::<Vec<_>>());
        let out = match r {
            Ok(o) => o,
            Err(e) => {
                ctx.inconclusive(&format!("cannot spawn env child: {e}"));
                continue;
            }
        };
        let text = String::from_utf8_lossy(&out.stdout);
        let Some(line) = text.lines().find_map(|l| l.strip_prefix("C14CHILD ")) else {
            ctx.inconclusive(&format!("env child {i} produced no report (status {:?}, stderr tail: {})", out.status.code(), String::from_utf8_lossy(&out.stderr).lines().last().unwrap_or("")));
            continue;
        };
        let Ok(v) = serde_json::from_str::<Value>(line) else {
            ctx.inconclusive("env child report is not JSON");
            continue;
        };
        ctx.obs("from_env.child_processes", 1);
        let evals = v.get("evals").and_then(Value::as_u64).unwrap_or(0);
        ctx.add_evals(evals);
        ctx.obs("from_env.executions", evals);
        if evals > 0 {
            ctx.nontrivial(mix64(fnv64(b"env"), fnv64(env_json.to_string().as_bytes())));
        }
        if let Some(o) = v.get("obs").and_then(Value::as_object) {
            for (k, n) in o {
                if k.starts_with("panic.") || k.starts_with("ended.") || k.starts_with("gaps.measured") {
                    ctx.obs(&format!("from_env.{k}"), n.as_u64().unwrap_or(0));
                }
            }
        }
        if let Some(fs) = v.get("findings").and_then(Value::as_array) {
            for f in fs {
                let sig = f.get("sig").and_then(Value::as_str).unwrap_or("C14|from_env|unparsed");
                let summary = f.get("summary").and_then(Value::as_str).unwrap_or("");
                let count = f.get("count").and_then(Value::as_u64).unwrap_or(1);
                let detail = json!({"route": "RetryPolicy::from_env in a child process", "env": env_json, "case": f.get("detail")});
                for _ in 0..count.min(50) {
                    ctx.violation(sig, summary, detail.clone());
                }
            }
        }
        parsed_policies.push(json!({"env": env_json, "policy": v.get("policy")}));
    }
    ctx.set_extra("from_env_policies", json!(parsed_policies));
}

// ---------------------------------------------------------------- CdnClient status mapping (real time)

mod cdn {
    use super::*;
    use cascette_protocol::{CacheConfig, CdnClient, CdnConfig, CdnEndpoint, ContentType};
    use std::io::{Read, Write};
    use std::sync::{Arc, Mutex};

    /// What the mock does with one request.
    #[derive(Clone)]
    pub enum Act {
        /// status line (+ body for 2xx), optional Retry-After header value written verbatim
        Status(u16, Option<&'static str>),
        /// close the connection without a response head
        CloseBeforeHeaders,
        /// 200 with Content-Length, half of the body, then FIN / RST
        CloseMidBody,
        ResetMidBody,
    }

    /// The three entry points of `CdnClient` that run under the retry policy.
    #[derive(Clone, Copy, Debug, PartialEq, Eq)]
    pub enum Entry {
        Download,
        ArchiveIndex,
        ResumeFromStart,
    }

    impl Entry {
        fn name(self) -> &'static str {
            match self {
                Entry::Download => "download",
                Entry::ArchiveIndex => "download_archive_index",
                Entry::ResumeFromStart => "download_with_resume(None)",
            }
        }
    }

    struct Mock {
        port: u16,
        log: Arc<Mutex<Vec<std::time::Instant>>>,
        stop: Arc<std::sync::atomic::AtomicBool>,
    }

    fn set_linger0(s: &std::net::TcpStream) {
        use std::os::fd::AsRawFd;
        let l = libc::linger { l_onoff: 1, l_linger: 0 };
        // SAFETY: valid fd, correctly sized option value.
        unsafe {
            libc::setsockopt(s.as_raw_fd(), libc::SOL_SOCKET, libc::SO_LINGER, (&raw const l).cast(), std::mem::size_of::<libc::linger>() as libc::socklen_t);
        }
    }

    fn start_mock(script: Vec<Act>, body: Vec<u8>) -> Option<Mock> {
        let listener = std::net::TcpListener::bind("127.0.0.1:0").ok()?;
        let port = listener.local_addr().ok()?.port();
        listener.set_nonblocking(true).ok()?;
        let log = Arc::new(Mutex::new(Vec::new()));
        let stop = Arc::new(std::sync::atomic::AtomicBool::new(false));
        let (log2, stop2) = (Arc::clone(&log), Arc::clone(&stop));
        std::thread::spawn(move || {
            while !stop2.load(Ordering::Relaxed) {
                match listener.accept() {
                    Ok((mut s, _)) => {
                        let _ = s.set_nonblocking(false);
                        let _ = s.set_read_timeout(Some(Duration::from_secs(5)));
                        let _ = s.set_nodelay(true);
                        let mut buf = Vec::new();
                        let mut tmp = [0u8; 2048];
                        while !buf.windows(4).any(|w| w == b"\r\n\r\n") {
                            match s.read(&mut tmp) {
                                Ok(0) | Err(_) => break,
                                Ok(n) => buf.extend_from_slice(&tmp[..n]),
                            }
                        }
                        if buf.is_empty() {
                            continue;
                        }
                        let idx = {
                            let mut g = log2.lock().unwrap_or_else(std::sync::PoisonError::into_inner);
                            g.push(std::time::Instant::now());
                            g.len() - 1
                        };
                        match script.get(idx).or(script.last()).cloned().unwrap_or(Act::Status(500, None)) {
                            Act::Status(status, ra) => {
                                let payload: &[u8] = if (200..300).contains(&status) && status != 204 { &body } else { b"" };
                                let mut head = format!("HTTP/1.1 {status} X\r\nContent-Length: {}\r\nConnection: close\r\n", payload.len());
                                if let Some(ra) = ra {
                                    head.push_str(&format!("Retry-After: {ra}\r\n"));
                                }
                                head.push_str("\r\n");
                                let _ = s.write_all(head.as_bytes());
                                let _ = s.write_all(payload);
                                let _ = s.flush();
                            }
                            Act::CloseBeforeHeaders => {}
                            Act::CloseMidBody | Act::ResetMidBody => {
                                let reset = matches!(script.get(idx).or(script.last()), Some(Act::ResetMidBody));
                                let _ = s.write_all(format!("HTTP/1.1 200 X\r\nContent-Length: {}\r\nConnection: close\r\n\r\n", body.len()).as_bytes());
                                let _ = s.write_all(&body[..body.len() / 2]);
                                let _ = s.flush();
                                std::thread::sleep(Duration::from_millis(10));
                                if reset {
                                    set_linger0(&s);
                                }
                            }
                        }
                    }
                    Err(_) => std::thread::sleep(Duration::from_millis(2)),
                }
            }
        });
        Some(Mock { port, log, stop })
    }

    struct Scenario {
        name: &'static str,
        script: Vec<Act>,
        /// expected number of requests (default policy: 3 retries)
        requests: usize,
        ok: bool,
        /// lower bounds on the gaps between consecutive requests (Retry-After hints in seconds)
        min_gaps: Vec<Option<Duration>>,
        entry: Entry,
    }

    pub fn section(ctx: &Ctx) {
        let s = |status: u16| Act::Status(status, None);
        let ra = |status: u16, v: &'static str| Act::Status(status, Some(v));
        let sec = |n: u64| Some(Duration::from_secs(n));
        // (name, script, expected requests, Ok?, lower bounds of the gaps)
        let table: Vec<(&'static str, Vec<Act>, usize, bool, Vec<Option<Duration>>)> = vec![
            ("200", vec![s(200)], 1, true, vec![]),
            ("204", vec![s(204)], 1, true, vec![]),
            ("500x", vec![s(500)], 4, false, vec![]),
            ("502x", vec![s(502)], 4, false, vec![]),
            ("503x", vec![s(503)], 4, false, vec![]),
            ("504x", vec![s(504)], 4, false, vec![]),
            ("501x", vec![s(501)], 4, false, vec![]),
            ("507x", vec![s(507)], 4, false, vec![]),
            ("599x", vec![s(599)], 4, false, vec![]),
            ("429x(no hint)", vec![s(429)], 4, false, vec![]),
            ("400", vec![s(400)], 1, false, vec![]),
            ("401", vec![s(401)], 1, false, vec![]),
            ("403", vec![s(403)], 1, false, vec![]),
            ("404", vec![s(404)], 1, false, vec![]),
            ("410", vec![s(410)], 1, false, vec![]),
            ("416", vec![s(416)], 1, false, vec![]),
            ("451", vec![s(451)], 1, false, vec![]),
            ("503,200", vec![s(503), s(200)], 2, true, vec![]),
            ("500,502,504,200", vec![s(500), s(502), s(504), s(200)], 4, true, vec![]),
            ("503,404", vec![s(503), s(404)], 2, false, vec![]),
            ("429+Retry-After:1,200", vec![ra(429, "1"), s(200)], 2, true, vec![sec(1)]),
            ("429+Retry-After:0,200", vec![ra(429, "0"), s(200)], 2, true, vec![sec(0)]),
            ("429+Retry-After:1,429+Retry-After:1,200", vec![ra(429, "1"), ra(429, "1"), s(200)], 3, true, vec![sec(1), sec(1)]),
            ("503,429+Retry-After:1,200", vec![s(503), ra(429, "1"), s(200)], 3, true, vec![None, sec(1)]),
            // hints the client does not understand (HTTP-date, garbage, negative, fraction): the statement only speaks of a hint
            // that is "present"; whether these count is open — only the retry itself is judged
            ("429+Retry-After:http-date,200", vec![ra(429, "Wed, 21 Oct 2065 07:28:00 GMT"), s(200)], 2, true, vec![]),
            ("429+Retry-After:garbage,200", vec![ra(429, "soon"), s(200)], 2, true, vec![]),
            ("429+Retry-After:-1,200", vec![ra(429, "-1"), s(200)], 2, true, vec![]),
            ("429+Retry-After:0.5,200", vec![ra(429, "0.5"), s(200)], 2, true, vec![]),
            // a hint on a 503 is not something the statement (or the client) attaches a wait to: retried, not timed
            ("503+Retry-After:1,200", vec![ra(503, "1"), s(200)], 2, true, vec![]),
            // transport failures are transient: retried like a 5xx
            ("closed-before-headers x", vec![Act::CloseBeforeHeaders], 4, false, vec![]),
            ("closed-mid-body x", vec![Act::CloseMidBody], 4, false, vec![]),
            ("reset-mid-body x", vec![Act::ResetMidBody], 4, false, vec![]),
            ("reset-mid-body,200", vec![Act::ResetMidBody, s(200)], 2, true, vec![]),
            ("closed-before-headers,503,200", vec![Act::CloseBeforeHeaders, s(503), s(200)], 3, true, vec![]),
            ("closed-mid-body,closed-before-headers,404", vec![Act::CloseMidBody, Act::CloseBeforeHeaders, s(404)], 3, false, vec![]),
        ];
        // every script through `download`; the other two retry-wrapped entry points in rotation (seeded offset)
        let rot = (ctx.seed % 3) as usize;
        let mut scenarios: Vec<Scenario> = Vec::new();
        for (i, (name, script, requests, ok, min_gaps)) in table.into_iter().enumerate() {
            scenarios.push(Scenario { name, script: script.clone(), requests, ok, min_gaps: min_gaps.clone(), entry: Entry::Download });
            let slow = min_gaps.iter().flatten().any(|d| !d.is_zero());
            if ctx.quick() && slow {
                continue; // the 1 s hints once per quick run
            }
            let others = [Entry::ArchiveIndex, Entry::ResumeFromStart];
            if ctx.quick() {
                scenarios.push(Scenario { name, script, requests, ok, min_gaps, entry: others[(i + rot) % 2] });
            } else {
                for e in others {
                    scenarios.push(Scenario { name, script: script.clone(), requests, ok, min_gaps: min_gaps.clone(), entry: e });
                }
            }
        }
        let rt = match tokio::runtime::Builder::new_multi_thread().worker_threads(4).enable_all().build() {
            Ok(rt) => rt,
            Err(e) => {
                ctx.inconclusive(&format!("cannot build real-time runtime: {e}"));
                return;
            }
        };
        let body: Vec<u8> = b"cdn-payload-0123456789-cdn-payload-0123456789".to_vec();
        let mut handles = Vec::new();
        for (si, sc) in scenarios.into_iter().enumerate() {
            let Some(mock) = start_mock(sc.script.clone(), body.clone()) else {
                ctx.inconclusive("cannot bind loopback mock for the CdnClient section");
                continue;
            };
            let body = body.clone();
            let h = rt.spawn(async move {
                let cache = match cascette_protocol::cache::ProtocolCache::new(&CacheConfig::default()) {
                    Ok(c) => Arc::new(c),
                    Err(e) => return (sc, mock, Err(format!("cache: {e}"))),
                };
                let client = match CdnClient::new(cache, CdnConfig::default()) {
                    Ok(c) => c,
                    Err(e) => return (sc, mock, Err(format!("client: {e}"))),
                };
                let ep = CdnEndpoint { host: format!("127.0.0.1:{}", mock.port), path: "tpr/wow".into(), product_path: None, scheme: Some("http".into()), is_fallback: false, strict: false, max_hosts: None };
                let mut key = [0u8; 16];
                key[0] = (si % 250) as u8 + 1;
                key[1] = (si / 250) as u8;
                key[15] = 0xc1;
                let fut = async {
                    match sc.entry {
                        Entry::Download => client.download(&ep, ContentType::Data, &key).await,
                        Entry::ArchiveIndex => client.download_archive_index(&ep, &hex::encode(key)).await,
                        Entry::ResumeFromStart => client.download_with_resume(&ep, ContentType::Patch, &key, None).await,
                    }
                };
                let r = tokio::time::timeout(Duration::from_secs(60), fut).await;
                let res = match r {
                    Err(_) => Err("watchdog: download did not return within 60 s".to_string()),
                    Ok(Ok(data)) => Ok(Some(if sc.script.last().is_some_and(|a| matches!(a, Act::Status(204, _))) { data.is_empty() } else { data == body })),
                    Ok(Err(_)) => Ok(None),
                };
                (sc, mock, res)
            });
            handles.push(h);
        }
        for h in handles {
            let Ok((sc, mock, res)) = rt.block_on(h) else {
                ctx.inconclusive("CdnClient scenario task failed");
                continue;
            };
            mock.stop.store(true, Ordering::Relaxed);
            let log = mock.log.lock().unwrap_or_else(std::sync::PoisonError::into_inner).clone();
            let api = format!("CdnClient::{}", if sc.entry == Entry::Download { "download" } else { sc.entry.name() });
            match res {
                Err(why) => ctx.inconclusive(&format!("CdnClient scenario {} via {}: {why}", sc.name, sc.entry.name())),
                Ok(outcome) => {
                    ctx.eval_nontrivial(mix64(fnv64(b"cdn"), mix64(fnv64(sc.name.as_bytes()), sc.entry as u64)));
                    ctx.obs("cdn.scenarios", 1);
                    ctx.obs(&format!("cdn.entry_point.{}", sc.entry.name()), 1);
                    ctx.obs("cdn.requests_observed", log.len() as u64);
                    if sc.script.iter().any(|a| !matches!(a, Act::Status(..))) {
                        ctx.obs("cdn.scenarios_with_transport_failures", 1);
                    }
                    let detail = json!({"scenario": sc.name, "entry_point": sc.entry.name(), "requests": log.len(), "expected_requests": sc.requests, "outcome": format!("{outcome:?}")});
                    if log.len() > 4 {
                        ctx.violation(&format!("C14|{api}|more-than-max_attempts+1-requests"), "more than 4 requests under the default policy (3 retries)", detail.clone());
                    } else if log.len() > sc.requests {
                        ctx.violation(&format!("C14|{api}|request-after-stopping-outcome"), "request sent after success or after a non-retryable status", detail.clone());
                    } else if log.len() < sc.requests {
                        let what = if sc.script.iter().take(log.len()).any(|a| !matches!(a, Act::Status(..))) { "gave-up-on-transport-failure-before-retries-exhausted" } else { "gave-up-on-retryable-status-before-retries-exhausted" };
                        ctx.violation(&format!("C14|{api}|{what}"), "a retryable failure (5xx / 429 / connection closed or reset) was not retried although retries remained", detail.clone());
                    }
                    match (sc.ok, outcome) {
                        (true, Some(true)) | (false, None) => {}
                        (true, Some(false)) => ctx.violation(&format!("C14|{api}|returned-bytes-differ"), "download returned other bytes than the 200 body", detail.clone()),
                        (true, None) => ctx.violation(&format!("C14|{api}|Err-although-stopping-outcome-is-200"), "download failed although the stopping response was 200", detail.clone()),
                        (false, Some(_)) => ctx.violation(&format!("C14|{api}|Ok-although-stopping-outcome-is-an-error"), "download succeeded although the stopping response was an error status", detail.clone()),
                    }
                    for (i, min) in sc.min_gaps.iter().enumerate() {
                        let (Some(min), true) = (min, log.len() >= i + 2) else { continue };
                        let gap = log[i + 1].duration_since(log[i]);
                        ctx.obs("cdn.retry_after_gaps_judged", 1);
                        ctx.obs_max("cdn.retry_after_gap_ms", gap.as_millis() as u64);
                        // the client sleeps after it has received response i, which is after request i arrived
                        if gap < *min {
                            ctx.violation(&format!("C14|{api}|gap-shorter-than-Retry-After-hint"), "retried sooner than the Retry-After header allows", json!({"scenario": sc.name, "entry_point": sc.entry.name(), "gap_index": i, "gap_ms": gap.as_millis() as u64}));
                        }
                    }
                }
            }
        }
        rt.shutdown_timeout(Duration::from_secs(2));
    }
}

// ---------------------------------------------------------------- main

fn replay(ctx: &Ctx, d: &Value) {
    let case = d.get("case").unwrap_or(d);
    let (Some(pol), Some(seq)) = (case.get("policy").and_then(Pol::from_json), case.get("sequence").and_then(Value::as_array)) else {
        ctx.inconclusive("replay file has no policy/sequence (CdnClient findings are reproduced by re-running the tier with the same seed)");
        return;
    };
    let seq: Vec<Sym> = seq.iter().filter_map(|s| s.as_str().and_then(Sym::parse)).collect();
    let salt = case.get("salt").and_then(Value::as_u64).unwrap_or(0);
    let op = Duration::from_nanos(case.get("op_ns").and_then(Value::as_u64).unwrap_or(0));
    let Ok(rt) = tokio::runtime::Builder::new_current_thread().enable_time().start_paused(true).build() else {
        ctx.inconclusive("cannot build runtime");
        return;
    };
    let mut st = Stats::default();
    let obs = rt.block_on(run_one(&pol, &seq, salt, op));
    println!("replay: policy={} sequence={:?} -> invocations={} ended={:?} total={:?}", pol.to_json(), seq, obs.starts.len(), obs.ended, obs.total);
    let f = judge(&pol, &seq, salt, op, &obs, &mut st);
    st.evals += 1;
    st.nontrivial.push(1);
    st.nontrivial.push(2);
    st.flush(ctx);
    report(ctx, f);
}

fn main() {
    if std::env::args().any(|a| a == "--c14-env-child") {
        env_child_main();
    }
    let ctx = Ctx::init("C14", "fault_enumeration");
    ctx.set_rule("cases are (retry policy, scripted outcome sequence, operation duration) executed under tokio's paused clock; sequences over {Ok, non-retryable, retryable, rate-limited with hint 0/1s/1h} are ALL go-prefixes of length 0..=max_attempts followed by a stop symbol plus all go-sequences of length max_attempts+1 followed by one more symbol; non-trivial = at least one retry gap is judged (>=1 retryable outcome before the stop and max_attempts >= 1); distinct by hash of (policy fields, sequence, operation duration); from_env cases are distinct by environment");
    ctx.assume("tokio's paused clock measures the delay requested from tokio::time::sleep exactly up to the 1 ms timer-wheel granularity (2 ms are granted on upper bounds, none on lower bounds)");
    ctx.assume("the classification of the scripted error values is undisputed: Timeout/ServiceUnavailable/Network/RateLimited are retryable, Parse/InvalidKey/InvalidEndpoint/AllHostsFailed/Other/RangeNotSupported are not");
    install_panic_hook();

    if let Some(d) = ctx.replay_detail() {
        replay(&ctx, &d);
        ctx.finish();
    }

    // ---- policy selection
    let all = grid();
    let grid_size = all.len();
    let selected: Vec<Pol> = if ctx.quick() {
        // stratified seeded sample: for every (max_attempts, multiplier) stratum 3 of its 32 policies (~10 %),
        // at least one of them with initial > max
        let mut rng: Rng = ctx.rng(14);
        let mut strata: BTreeMap<(u32, u64), Vec<Pol>> = BTreeMap::new();
        for p in all {
            strata.entry((p.max_attempts, p.mult.to_bits())).or_default().push(p);
        }
        let mut sel = Vec::new();
        for (_, mut v) in strata {
            rng.shuffle(&mut v);
            let mut take: Vec<Pol> = v.iter().take(2).cloned().collect();
            if let Some(p) = v.iter().skip(2).find(|p| p.initial > p.max) {
                take.push(p.clone());
            }
            if let Some(p) = v.iter().skip(2).find(|p| p.initial <= p.max && !p.initial.is_zero()) {
                if take.len() < 4 && !take.iter().any(|q| q.initial <= q.max && !q.initial.is_zero()) {
                    take.push(p.clone());
                }
            }
            sel.extend(take);
        }
        sel
    } else {
        all
    };
    let mut order: Vec<usize> = (0..selected.len()).collect();
    order.sort_by_key(|&i| std::cmp::Reverse(selected[i].max_attempts));
    let planned: u64 = selected.iter().map(|p| sequences_per_policy(p.max_attempts)).sum();
    ctx.obs("grid.policies_total", grid_size as u64);
    ctx.obs("grid.policies_run", selected.len() as u64);
    ctx.obs("grid.executions_planned", planned);
    for p in &selected {
        ctx.obs(&format!("policies.multiplier_class.{}", p.mult_class()), 1);
        if p.initial > p.max {
            ctx.obs("policies.initial>max", 1);
        }
        if p.regular() {
            ctx.obs("policies.regular(schedule judged)", 1);
        }
    }

    // ---- enumeration, one paused runtime per policy, 16 threads
    let next = AtomicUsize::new(0);
    let wall_limit = Duration::from_secs_f64(ctx.pick(100.0, 540.0) * Ctx::wall_scale());
    let started = std::time::Instant::now();
    let timed_out = std::sync::atomic::AtomicBool::new(false);
    let jitter_minmax = std::sync::Mutex::new((None::<u64>, None::<u64>));
    std::thread::scope(|s| {
        for _ in 0..16 {
            s.spawn(|| {
                let mut st = Stats::default();
                loop {
                    let k = next.fetch_add(1, Ordering::Relaxed);
                    if k >= order.len() {
                        break;
                    }
                    if started.elapsed() > wall_limit {
                        timed_out.store(true, Ordering::Relaxed);
                        break;
                    }
                    let pol = &selected[order[k]];
                    let mut findings = Vec::new();
                    let r = std::panic::catch_unwind(AssertUnwindSafe(|| run_policy_all_sequences(pol, &mut st, &mut findings, 4)));
                    if r.is_err() {
                        let msg = LAST_PANIC.with(|c| c.borrow_mut().take()).unwrap_or_default();
                        ctx.inconclusive(&format!("harness thread panicked outside the monitored call: {msg}"));
                    }
                    for f in findings {
                        if f.detail.is_null() {
                            // repeated occurrence of an already reported signature
                            ctx.violation(&f.sig, &f.summary, Value::Null);
                        } else {
                            ctx.violation(&f.sig, &f.summary, f.detail);
                        }
                    }
                    if ctx.want_sample() && pol.max_attempts >= 2 && pol.regular() && !pol.initial.is_zero() {
                        ctx.sample(json!({"kind": "policy enumerated with all its sequences", "policy": pol.to_json(), "sequences": sequences_per_policy(pol.max_attempts)}));
                    }
                    st.flush(&ctx);
                }
                let mut g = jitter_minmax.lock().unwrap_or_else(std::sync::PoisonError::into_inner);
                if let Some(m) = st.jitter_ratio_min_ppm {
                    g.0 = Some(g.0.map_or(m, |x: u64| x.min(m)));
                }
                if let Some(m) = st.jitter_ratio_max_ppm {
                    g.1 = Some(g.1.map_or(m, |x: u64| x.max(m)));
                }
            });
        }
    });
    let complete = !timed_out.load(Ordering::Relaxed);
    if !complete {
        ctx.inconclusive("enumeration did not finish inside the wall-clock budget");
    }
    {
        let g = jitter_minmax.lock().unwrap_or_else(std::sync::PoisonError::into_inner);
        ctx.set_extra("jitter_ratio_observed(delay/base, delays >= 100 ms, jitter on)", json!({"min": g.0.map(|x| x as f64 / 1e6), "max": g.1.map(|x| x as f64 / 1e6)}));
    }

    // a concrete measured case for the evidence file
    {
        let pol = Pol { max_attempts: 4, initial: Duration::from_millis(100), max: Duration::from_secs(10), mult: 10.0, jitter: false };
        let seq = [Sym::Retry, Sym::Hint(1), Sym::Retry, Sym::Retry, Sym::Ok];
        if let Ok(rt) = tokio::runtime::Builder::new_current_thread().enable_time().start_paused(true).build() {
            let obs = rt.block_on(run_one(&pol, &seq, 1, Duration::ZERO));
            ctx.sample(case_detail(&pol, &seq, 1, Duration::ZERO, &obs, json!({"kind": "measured delays of one execution"})));
        }
    }

    // ---- from_env with hostile environments (child processes)
    env_section(&ctx);

    // ---- every ProtocolError variant (incl. real transport errors) as the failing outcome; hints at the edge of Duration
    ext::classification_section(&ctx);
    ext::huge_hint_section(&ctx);

    // ---- CdnClient::download status mapping (real time, default policy)
    cdn::section(&ctx);

    // ---- floors
    if ctx.get_obs("gaps.measured") == 0 {
        ctx.inconclusive("no delay between attempts was measured");
    }
    if ctx.get_obs("gaps.after_hint.H1h") == 0 || ctx.get_obs("gaps.after_backoff") == 0 {
        ctx.inconclusive("a gap class (hint / computed back-off) was never observed");
    }
    if ctx.get_obs("from_env.child_processes") == 0 {
        ctx.inconclusive("no from_env child process reported");
    }
    if ctx.get_obs("classification.kinds_exercised") < 40 || ctx.get_obs("classification.gaps_measured") == 0 {
        ctx.inconclusive("the error-classification section exercised fewer than 40 error kinds");
    }
    for k in ["Http(connection-refused)", "Http(closed-before-response-head)", "Http(body-cut-off-by-close)", "Http(body-cut-off-by-reset)", "Http(time-out)"] {
        if ctx.get_obs(&format!("classification.kind_not_produced.{k}")) > 0 {
            ctx.inconclusive(&format!("transport error kind could not be produced on loopback: {k}"));
        }
    }
    for k in ["cdn.entry_point.download", "cdn.entry_point.download_archive_index", "cdn.entry_point.download_with_resume(None)", "cdn.scenarios_with_transport_failures", "cdn.retry_after_gaps_judged"] {
        if ctx.get_obs(k) == 0 {
            ctx.inconclusive(&format!("CdnClient section: never observed: {k}"));
        }
    }
    if ctx.get_obs("huge_hint.executions") == 0 {
        ctx.inconclusive("the huge-hint section did not run");
    }
    if !ctx.quick() && complete && ctx.get_obs("grid.policies_run") == grid_size as u64 {
        ctx.set_exhaustive(true);
    }
    ctx.finish();
}
