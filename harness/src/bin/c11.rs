//! C11 — concurrent cache and storage use is linearizable and keeps its books.
//!
//! Two execution modes, both recording call/return events at the client
//! boundary with one monotonic counter:
//!   * baton mode: tasks on OS threads, interleaved deterministically at the
//!     repository's `sched_point` hooks by a seeded controller (replayable);
//!   * stress mode: free-running threads, hooks inject random spins/yields.
//! Every history is judged by an exact linearizability checker against a
//! per-key register model with explicit non-determinism for expiring values,
//! plus a quiescence check of the books (entry count, byte usage).

use async_trait::async_trait;
use bytes::Bytes;
use cascette_cache::config::{DiskCacheConfig, MemoryCacheConfig};
use cascette_cache::key::CacheKey;
use cascette_cache::traits::AsyncCache;
use cascette_cache::{DiskCache, MemoryCache};
use serde_json::{Value, json};
use std::collections::{BTreeMap, HashSet};
use std::sync::atomic::{AtomicU64, Ordering};
use std::sync::{Arc, Mutex};
use std::time::Duration;
use vh::monitor::baton;
use vh::monitor::linz::{self, Event, Model, Verdict};
use vh::{Ctx, Rng, fnv64, mix64};

#[derive(Debug, Clone, PartialEq, Eq, Hash)]
struct SKey(String);
impl CacheKey for SKey {
    fn as_cache_key(&self) -> &str {
        &self.0
    }
}

const NKEYS: usize = 3; // k0 hot, k1 warm, k2 disjoint
const TORN: u32 = u32::MAX;

fn value_bytes(id: u32) -> Vec<u8> {
    let len = 8 + (id as usize * 7) % 40;
    let mut v = Vec::with_capacity(len);
    while v.len() < len {
        v.extend_from_slice(&id.to_le_bytes());
    }
    v.truncate(len);
    v
}

fn value_id(bytes: &[u8]) -> u32 {
    if bytes.len() < 4 {
        return TORN;
    }
    let id = u32::from_le_bytes([bytes[0], bytes[1], bytes[2], bytes[3]]);
    if id != TORN && value_bytes(id) == bytes { id } else { TORN }
}

#[derive(Debug, Clone, Copy, PartialEq, Eq, Hash)]
enum OpSpec {
    Get(u8),
    Contains(u8),
    Put(u8, u32),
    PutTtl0(u8, u32),
    Remove(u8),
    Clear,
    /// DynamicContainer only: merge the index's update section into the sorted section and rewrite the index
    /// file (key 0: `flush_all_updates`, otherwise `flush_bucket` of that key's bucket); leaves every register as it is
    Flush(u8),
}

impl OpSpec {
    fn name(&self) -> &'static str {
        match self {
            OpSpec::Get(_) => "get",
            OpSpec::Contains(_) => "contains",
            OpSpec::Put(..) => "put",
            OpSpec::PutTtl0(..) => "put_ttl0",
            OpSpec::Remove(_) => "remove",
            OpSpec::Clear => "clear",
            OpSpec::Flush(_) => "flush",
        }
    }
    fn to_json(self) -> Value {
        match self {
            OpSpec::Get(k) => json!(["get", k]),
            OpSpec::Contains(k) => json!(["contains", k]),
            OpSpec::Put(k, v) => json!(["put", k, v]),
            OpSpec::PutTtl0(k, v) => json!(["put_ttl0", k, v]),
            OpSpec::Remove(k) => json!(["remove", k]),
            OpSpec::Clear => json!(["clear"]),
            OpSpec::Flush(k) => json!(["flush", k]),
        }
    }
    fn from_json(v: &Value) -> Option<Self> {
        let a = v.as_array()?;
        let name = a.first()?.as_str()?;
        let k = a.get(1).and_then(Value::as_u64).unwrap_or(0) as u8;
        let id = a.get(2).and_then(Value::as_u64).unwrap_or(0) as u32;
        Some(match name {
            "get" => OpSpec::Get(k),
            "contains" => OpSpec::Contains(k),
            "put" => OpSpec::Put(k, id),
            "put_ttl0" => OpSpec::PutTtl0(k, id),
            "remove" => OpSpec::Remove(k),
            "clear" => OpSpec::Clear,
            "flush" => OpSpec::Flush(k),
            _ => return None,
        })
    }
}

#[derive(Debug, Clone, PartialEq, Eq, Hash)]
enum Res {
    Value(Option<u32>),
    Bool(bool),
    Unit,
    Err(String),
}

#[derive(Debug, Clone, PartialEq, Eq, Hash)]
struct Done {
    spec: OpSpec,
    res: Res,
}

#[derive(Debug, Clone)]
struct Rec {
    task: u8,
    call: u64,
    ret: u64,
    done: Done,
}

/// Register per key: 0 = empty, (id << 1) | 1 = expiring value, id << 1 = live (id >= 1).
struct RegModel {
    /// the subject may legitimately evict live entries at any time
    evicting: bool,
}
impl Model for RegModel {
    type State = [u64; NKEYS];
    type Op = Done;
    fn step(&self, s: &Self::State, op: &Done) -> Vec<Self::State> {
        let live = |id: u32| u64::from(id) << 1;
        let exp = |id: u32| (u64::from(id) << 1) | 1;
        let is_live = |r: u64| r != 0 && r & 1 == 0;
        let mut out = Vec::new();
        match (&op.spec, &op.res) {
            // an operation that reported an error may or may not have taken effect
            (OpSpec::Put(k, id), Res::Err(_)) => {
                out.push(*s);
                let mut n = *s;
                n[*k as usize] = live(*id);
                out.push(n);
            }
            (OpSpec::PutTtl0(k, id), Res::Err(_)) => {
                out.push(*s);
                let mut n = *s;
                n[*k as usize] = exp(*id);
                out.push(n);
            }
            (OpSpec::Remove(k), Res::Err(_)) => {
                out.push(*s);
                let mut n = *s;
                n[*k as usize] = 0;
                out.push(n);
            }
            (OpSpec::Clear, Res::Err(_)) => {
                out.push(*s);
                out.push([0; NKEYS]);
            }
            (_, Res::Err(_)) => out.push(*s),
            (OpSpec::Put(k, id), _) => {
                let mut n = *s;
                n[*k as usize] = live(*id);
                out.push(n);
            }
            (OpSpec::PutTtl0(k, id), _) => {
                let mut n = *s;
                n[*k as usize] = exp(*id);
                out.push(n);
            }
            (OpSpec::Get(k), Res::Value(Some(id))) => {
                // an expiring value may still be served: whether its (tiny) TTL has already
                // passed is a wall-clock matter the model leaves open (C10 judges expiry)
                if s[*k as usize] == live(*id) || s[*k as usize] == exp(*id) {
                    out.push(*s);
                }
            }
            (OpSpec::Get(k), Res::Value(None)) => {
                if !is_live(s[*k as usize]) {
                    out.push(*s);
                } else if self.evicting {
                    let mut n = *s;
                    n[*k as usize] = 0;
                    out.push(n);
                }
            }
            (OpSpec::Contains(k), Res::Bool(b)) => {
                let r = s[*k as usize];
                let ok = if is_live(r) { *b } else if r == 0 { !*b } else { true };
                if ok {
                    out.push(*s);
                } else if self.evicting && is_live(r) && !*b {
                    let mut n = *s;
                    n[*k as usize] = 0;
                    out.push(n);
                }
            }
            (OpSpec::Remove(k), Res::Bool(b)) => {
                let r = s[*k as usize];
                // live -> must report true; empty -> false; expired-but-maybe-still-present -> either
                let ok = if is_live(r) { *b || self.evicting } else if r == 0 { !*b } else { true };
                if ok {
                    let mut n = *s;
                    n[*k as usize] = 0;
                    out.push(n);
                }
            }
            // containers report removal without a flag
            (OpSpec::Remove(k), Res::Unit) => {
                let mut n = *s;
                n[*k as usize] = 0;
                out.push(n);
            }
            (OpSpec::Clear, _) => out.push([0; NKEYS]),
            // maintenance of the index representation: no register changes
            (OpSpec::Flush(_), Res::Unit) => out.push(*s),
            _ => {}
        }
        out
    }
}

#[derive(Debug, Clone, Copy, PartialEq, Eq)]
enum Kind {
    Memory,
    /// MemoryCache with max_entries = 2 (0..=3) or max_memory_bytes = 64 (4..=7), LRU/LFU/FIFO/Random by the
    /// field modulo 4: eviction is legitimate
    MemoryEvicting(u8),
    /// MemoryCache with max_entries = 1 and the Ttl policy: every put runs the "evict expired entries" pass
    /// (snapshot of the expired keys, then removal); live entries are never evicted by this policy, so the
    /// model does NOT allow eviction
    MemoryTtlPolicy,
    /// MemoryCache::new_with_cleanup (cleanup_interval 1 ms) on a runtime of its own: stress mode only
    MemoryCleanupTask,
    /// DiskCache::new_with_background_tasks (cleanup_interval 1 ms) on a runtime of its own: the task purges
    /// expired entries from the shared index and adjusts the shared counters while the tasks run; stress mode only
    DiskCleanupTask,
    Dynamic,
    /// DynamicContainer with an LruManager attached: read and write additionally touch the key in the LRU table
    /// under its own lock
    DynamicLru,
    /// MultiLayerCacheImpl (two memory layers, OnHit promotion, L2 pre-seeded): judged weakly
    /// (returns, no error, no torn/foreign value, returned values were written for that key)
    MultiLayer,
    DiskFlat,
    DiskSubdirs,
    /// DiskCache (flat) whose pre-population was written by an EARLIER instance on the same directory: the instance
    /// under test starts with an empty index over existing files, so the first get of a key takes the adopt-the-file
    /// path (read the file, then take it into the index) concurrently with remove / clear / put
    DiskReopened,
    ProtocolMemory,
    ProtocolDisk,
    /// ProtocolCache called from inside a tokio runtime (what the async clients do): every operation is shipped
    /// to a freshly spawned thread that drives the shared background runtime; stress mode only (the spawned
    /// thread carries no baton handler)
    ProtocolMemoryInRuntime,
    ProtocolDiskInRuntime,
}

impl Kind {
    fn name(self) -> &'static str {
        match self {
            Kind::Memory => "MemoryCache",
            Kind::MemoryEvicting(0) => "MemoryCache(evicting,lru)",
            Kind::MemoryEvicting(1) => "MemoryCache(evicting,lfu)",
            Kind::MemoryEvicting(2) => "MemoryCache(evicting,fifo)",
            Kind::MemoryEvicting(3) => "MemoryCache(evicting,random)",
            Kind::MemoryEvicting(4) => "MemoryCache(evicting-by-bytes,lru)",
            Kind::MemoryEvicting(5) => "MemoryCache(evicting-by-bytes,lfu)",
            Kind::MemoryEvicting(6) => "MemoryCache(evicting-by-bytes,fifo)",
            Kind::MemoryEvicting(_) => "MemoryCache(evicting-by-bytes,random)",
            Kind::MemoryTtlPolicy => "MemoryCache(ttl-policy)",
            Kind::MemoryCleanupTask => "MemoryCache(cleanup-task)",
            Kind::DiskCleanupTask => "DiskCache(cleanup-task)",
            Kind::Dynamic => "DynamicContainer",
            Kind::DynamicLru => "DynamicContainer(lru)",
            Kind::MultiLayer => "MultiLayerCacheImpl",
            Kind::DiskFlat => "DiskCache",
            Kind::DiskSubdirs => "DiskCache(subdirs)",
            Kind::DiskReopened => "DiskCache(reopened-over-existing-files)",
            Kind::ProtocolMemory => "ProtocolCache(memory)",
            Kind::ProtocolDisk => "ProtocolCache(disk)",
            Kind::ProtocolMemoryInRuntime => "ProtocolCache(memory,in-runtime)",
            Kind::ProtocolDiskInRuntime => "ProtocolCache(disk,in-runtime)",
        }
    }
    /// family used in signatures (one defect = one signature whatever the wrapper)
    fn family(self) -> &'static str {
        match self {
            Kind::Memory | Kind::MemoryCleanupTask => "MemoryCache",
            Kind::MemoryEvicting(_) => "MemoryCache(evicting)",
            Kind::MemoryTtlPolicy => "MemoryCache(ttl-policy)",
            Kind::Dynamic | Kind::DynamicLru => "DynamicContainer",
            Kind::MultiLayer => "MultiLayerCacheImpl",
            Kind::DiskFlat | Kind::DiskSubdirs | Kind::DiskCleanupTask | Kind::DiskReopened => "DiskCache",
            Kind::ProtocolMemory | Kind::ProtocolMemoryInRuntime => "ProtocolCache(memory)",
            Kind::ProtocolDisk | Kind::ProtocolDiskInRuntime => "ProtocolCache(disk)",
        }
    }
    fn from_name(s: &str) -> Option<Self> {
        [
            Kind::Memory,
            Kind::MemoryEvicting(0),
            Kind::MemoryEvicting(1),
            Kind::MemoryEvicting(2),
            Kind::MemoryEvicting(3),
            Kind::MemoryEvicting(4),
            Kind::MemoryEvicting(5),
            Kind::MemoryEvicting(6),
            Kind::MemoryEvicting(7),
            Kind::MemoryTtlPolicy,
            Kind::MemoryCleanupTask,
            Kind::DiskCleanupTask,
            Kind::Dynamic,
            Kind::DynamicLru,
            Kind::MultiLayer,
            Kind::DiskFlat,
            Kind::DiskSubdirs,
            Kind::DiskReopened,
            Kind::ProtocolMemory,
            Kind::ProtocolDisk,
            Kind::ProtocolMemoryInRuntime,
            Kind::ProtocolDiskInRuntime,
        ]
        .into_iter()
            .find(|k| k.name() == s)
    }
}

/// Uniform synchronous facade over the caches under test.
#[async_trait]
trait Subject: Send + Sync {
    async fn apply(&self, op: OpSpec) -> Res;
    /// every figure the API reports about its contents
    async fn books(&self) -> Result<Books, String>;
    /// false when the subject's counters are judged elsewhere (C05) and not here
    fn judge_books(&self) -> bool {
        true
    }
}

/// What a subject reports about its contents once everything is quiet.
#[derive(Debug, Clone, Default)]
struct Books {
    /// every reported entry count, by the API that reported it (`size()`, `stats().entry_count`, `len()` ...)
    counts: Vec<(&'static str, usize)>,
    /// reported byte usage, if the API reports one
    bytes: Option<u64>,
    /// `is_empty()`, if the API has one
    empty: Option<bool>,
}

struct AsyncSubject {
    cache: Arc<dyn AsyncCache<SKey>>,
    reports_bytes: bool,
    /// `put` (the cache's default TTL: 1 h / 24 h) instead of `put_with_ttl(3600 s)` for non-expiring values
    plain_put: bool,
}

fn key_name(k: u8) -> String {
    format!("key-{k}")
}

fn err_class(e: &str) -> String {
    // canonical, stable class of an error message: strip paths and numbers
    let lower = e.to_lowercase();
    for (needle, class) in [
        ("no such file", "io-not-found"),
        ("not found", "not-found"),
        ("lock", "lock"),
        ("permission", "permission"),
        ("directory not empty", "dir-not-empty"),
        ("truncated", "truncated-read"),
        ("beyond archive bounds", "beyond-archive-bounds"),
    ] {
        if lower.contains(needle) {
            return class.to_string();
        }
    }
    let cleaned: String = lower.chars().filter(|c| c.is_ascii_alphabetic() || *c == ' ').collect();
    cleaned.split_whitespace().take(4).collect::<Vec<_>>().join("-")
}

#[async_trait]
impl Subject for AsyncSubject {
    async fn apply(&self, op: OpSpec) -> Res {
        match op {
            OpSpec::Get(k) => match self.cache.get(&SKey(key_name(k))).await {
                Ok(v) => Res::Value(v.map(|b| value_id(&b))),
                Err(e) => Res::Err(e.to_string()),
            },
            OpSpec::Contains(k) => match self.cache.contains(&SKey(key_name(k))).await {
                Ok(b) => Res::Bool(b),
                Err(e) => Res::Err(e.to_string()),
            },
            OpSpec::Put(k, id) if self.plain_put => match self.cache.put(SKey(key_name(k)), Bytes::from(value_bytes(id))).await {
                Ok(()) => Res::Unit,
                Err(e) => Res::Err(e.to_string()),
            },
            OpSpec::Put(k, id) => match self
                .cache
                .put_with_ttl(SKey(key_name(k)), Bytes::from(value_bytes(id)), Duration::from_secs(3600))
                .await
            {
                Ok(()) => Res::Unit,
                Err(e) => Res::Err(e.to_string()),
            },
            OpSpec::PutTtl0(k, id) => match self
                .cache
                .put_with_ttl(SKey(key_name(k)), Bytes::from(value_bytes(id)), Duration::ZERO)
                .await
            {
                Ok(()) => Res::Unit,
                Err(e) => Res::Err(e.to_string()),
            },
            OpSpec::Remove(k) => match self.cache.remove(&SKey(key_name(k))).await {
                Ok(b) => Res::Bool(b),
                Err(e) => Res::Err(e.to_string()),
            },
            OpSpec::Clear => match self.cache.clear().await {
                Ok(()) => Res::Unit,
                Err(e) => Res::Err(e.to_string()),
            },
            // caches have no flush: read instead (the generator only emits it for the container)
            OpSpec::Flush(k) => match self.cache.get(&SKey(key_name(k))).await {
                Ok(v) => Res::Value(v.map(|b| value_id(&b))),
                Err(e) => Res::Err(e.to_string()),
            },
        }
    }
    async fn books(&self) -> Result<Books, String> {
        let size = self.cache.size().await.map_err(|e| e.to_string())?;
        let stats = self.cache.stats().await.map_err(|e| e.to_string())?;
        let empty = self.cache.is_empty().await.map_err(|e| e.to_string())?;
        Ok(Books {
            counts: vec![("size()", size), ("stats().entry_count", stats.entry_count)],
            bytes: self.reports_bytes.then_some(stats.memory_usage_bytes as u64),
            empty: Some(empty),
        })
    }
}

/// ProtocolCache is synchronous (it drives a shared runtime itself); called
/// from plain threads so that its block_on runs the future on the caller.
struct ProtoSubject {
    cache: cascette_protocol::cache::ProtocolCache,
}

#[async_trait]
impl Subject for ProtoSubject {
    async fn apply(&self, op: OpSpec) -> Res {
        match op {
            // the warm key is read through the second entry point
            OpSpec::Get(1) => match self.cache.get_bytes(&key_name(1)) {
                Ok(v) => Res::Value(v.map(|b| value_id(&b))),
                Err(e) => Res::Err(e.to_string()),
            },
            OpSpec::Get(k) => match self.cache.get(&key_name(k)) {
                Ok(v) => Res::Value(v.map(|b| value_id(&b))),
                Err(e) => Res::Err(e.to_string()),
            },
            // odd value ids are stored with the TTL the cache derives from the key (30 min for these keys)
            OpSpec::Put(k, id) if id % 2 == 1 => match self.cache.store_bytes(&key_name(k), &value_bytes(id)) {
                Ok(()) => Res::Unit,
                Err(e) => Res::Err(e.to_string()),
            },
            OpSpec::Put(k, id) => match self.cache.store_with_ttl(&key_name(k), &value_bytes(id), Duration::from_secs(3600)) {
                Ok(()) => Res::Unit,
                Err(e) => Res::Err(e.to_string()),
            },
            OpSpec::PutTtl0(k, id) => match self.cache.store_with_ttl(&key_name(k), &value_bytes(id), Duration::ZERO) {
                Ok(()) => Res::Unit,
                Err(e) => Res::Err(e.to_string()),
            },
            OpSpec::Clear => match self.cache.clear() {
                Ok(()) => Res::Unit,
                Err(e) => Res::Err(e.to_string()),
            },
            // the nearest thing to contains: how many of the given keys the cache reports as present
            OpSpec::Contains(k) => match self.cache.warm_cache(vec![key_name(k)]).await {
                Ok(n) => Res::Bool(n == 1),
                Err(e) => Res::Err(e.to_string()),
            },
            // ProtocolCache has no remove (and no flush): map to get (keeps the op alphabet uniform)
            OpSpec::Remove(k) | OpSpec::Flush(k) => match self.cache.get(&key_name(k)) {
                Ok(v) => Res::Value(v.map(|b| value_id(&b))),
                Err(e) => Res::Err(e.to_string()),
            },
        }
    }
    async fn books(&self) -> Result<Books, String> {
        let n = self.cache.len().map_err(|e| e.to_string())?;
        let stats = self.cache.stats().map_err(|e| e.to_string())?;
        let empty = self.cache.is_empty().map_err(|e| e.to_string())?;
        Ok(Books {
            counts: vec![("len()", n), ("stats().entries", stats.entries as usize)],
            // entry bytes of the backing cache, whichever it is (ProtocolCache reports both in `memory_usage`)
            bytes: Some(stats.memory_usage),
            empty: Some(empty),
        })
    }
}

/// DynamicContainer: content-addressed, one fixed payload per key slot.
struct DynSubject {
    c: cascette_client_storage::container::DynamicContainer,
    payloads: [Vec<u8>; NKEYS],
    keys: [[u8; 16]; NKEYS],
}

fn dyn_payload(k: usize) -> Vec<u8> {
    // large, then small, then tiny: later entries are shorter than the first
    let len = [1500usize, 120, 40][k];
    (0..len).map(|i| (i as u8).wrapping_mul(31).wrapping_add(k as u8 * 7 + 1)).collect()
}

fn dyn_key(payload: &[u8]) -> [u8; 16] {
    // encoding key = MD5 of the single-chunk, uncompressed BLTE wrapper
    let mut blte = b"BLTE\x00\x00\x00\x00N".to_vec();
    blte.extend_from_slice(payload);
    md5::compute(&blte).0
}

#[async_trait]
impl Subject for DynSubject {
    async fn apply(&self, op: OpSpec) -> Res {
        use cascette_client_storage::container::Container;
        match op {
            OpSpec::Get(k) => {
                let mut buf = vec![0u8; 4096];
                match self.c.read(&self.keys[k as usize], 0, 0, &mut buf).await {
                    Ok(n) => Res::Value(Some(if buf[..n] == self.payloads[k as usize][..] { u32::from(k) + 1 } else { TORN })),
                    Err(cascette_client_storage::StorageError::NotFound(_)) => Res::Value(None),
                    Err(e) => Res::Err(e.to_string()),
                }
            }
            OpSpec::Contains(_) | OpSpec::Clear => {
                let k = if let OpSpec::Contains(k) = op { k } else { 0 };
                match self.c.query(&self.keys[k as usize]).await {
                    Ok(b) => Res::Bool(b),
                    Err(e) => Res::Err(e.to_string()),
                }
            }
            OpSpec::Put(k, _) | OpSpec::PutTtl0(k, _) => match self.c.write(&self.keys[k as usize], &self.payloads[k as usize]).await {
                Ok(()) => Res::Unit,
                Err(e) => Res::Err(e.to_string()),
            },
            OpSpec::Remove(k) => match self.c.remove(&self.keys[k as usize]).await {
                Ok(()) => Res::Unit,
                Err(e) => Res::Err(e.to_string()),
            },
            OpSpec::Flush(k) => {
                let r = if k == 0 {
                    self.c.flush_all_updates()
                } else {
                    let ekey = cascette_crypto::EncodingKey::from_bytes(self.keys[k as usize]);
                    self.c.flush_bucket(cascette_client_storage::index::IndexManager::bucket_for_key(&ekey))
                };
                match r {
                    Ok(()) => Res::Unit,
                    Err(e) => Res::Err(e.to_string()),
                }
            }
        }
    }
    async fn books(&self) -> Result<Books, String> {
        Ok(Books { counts: vec![("entry_count()", self.c.entry_count())], bytes: None, empty: None })
    }
    fn judge_books(&self) -> bool {
        false
    }
}

struct Built {
    subject: Arc<dyn Subject>,
    _dir: Option<tempfile::TempDir>,
    /// true when ops must be driven without a surrounding tokio runtime
    sync_only: bool,
    /// runtime that owns background tasks spawned by the subject's constructor
    _rt: Option<tokio::runtime::Runtime>,
}

/// Disk-backed subjects live on tmpfs when available: the property is about interleavings, not about the
/// device, and a slow fsync under machine load would look like a stalled task to the baton.
fn scratch_dir() -> Result<tempfile::TempDir, String> {
    if std::path::Path::new("/dev/shm").is_dir() {
        tempfile::Builder::new().prefix("vh-c11-").tempdir_in("/dev/shm").map_err(|e| e.to_string())
    } else {
        tempfile::tempdir().map_err(|e| e.to_string())
    }
}

fn build(kind: Kind) -> Result<Built, String> {
    match kind {
        Kind::Memory => {
            let cfg = MemoryCacheConfig::new().with_max_entries(10_000).with_max_memory(1 << 30);
            let c: MemoryCache<SKey> = MemoryCache::new(cfg).map_err(|e| e.to_string())?;
            Ok(Built { subject: Arc::new(AsyncSubject { cache: Arc::new(c), reports_bytes: true, plain_put: false }), _dir: None, sync_only: false, _rt: None })
        }
        Kind::MemoryTtlPolicy => {
            use cascette_cache::traits::EvictionPolicy;
            let cfg = MemoryCacheConfig::new().with_max_entries(1).with_max_memory(1 << 30).with_eviction_policy(EvictionPolicy::Ttl);
            let c: MemoryCache<SKey> = MemoryCache::new(cfg).map_err(|e| e.to_string())?;
            Ok(Built { subject: Arc::new(AsyncSubject { cache: Arc::new(c), reports_bytes: true, plain_put: false }), _dir: None, sync_only: false, _rt: None })
        }
        Kind::MemoryCleanupTask => {
            let rt = tokio::runtime::Builder::new_multi_thread().worker_threads(1).enable_all().build().map_err(|e| e.to_string())?;
            let mut cfg = MemoryCacheConfig::new().with_max_entries(10_000).with_max_memory(1 << 30);
            cfg.cleanup_interval = Duration::from_millis(1);
            let c: MemoryCache<SKey> = {
                let _g = rt.enter();
                MemoryCache::new_with_cleanup(cfg).map_err(|e| e.to_string())?
            };
            Ok(Built { subject: Arc::new(AsyncSubject { cache: Arc::new(c), reports_bytes: true, plain_put: true }), _dir: None, sync_only: false, _rt: Some(rt) })
        }
        Kind::DiskCleanupTask => {
            let dir = scratch_dir()?;
            let rt = tokio::runtime::Builder::new_multi_thread().worker_threads(1).enable_all().build().map_err(|e| e.to_string())?;
            let mut cfg = DiskCacheConfig::new(dir.path()).with_max_files(100_000).with_subdirectories(false, 0);
            cfg.cleanup_interval = Duration::from_millis(1);
            // the sync task executes the external `sync` command once at start-up; PATH carries a no-op (see main)
            cfg.sync_interval = Duration::from_secs(3600);
            let c: DiskCache<SKey> = {
                let _g = rt.enter();
                DiskCache::new_with_background_tasks(cfg).map_err(|e| e.to_string())?
            };
            Ok(Built { subject: Arc::new(AsyncSubject { cache: Arc::new(c), reports_bytes: true, plain_put: false }), _dir: Some(dir), sync_only: false, _rt: Some(rt) })
        }
        Kind::MemoryEvicting(p) => {
            use cascette_cache::traits::EvictionPolicy;
            let policy = match p % 4 {
                0 => EvictionPolicy::Lru,
                1 => EvictionPolicy::Lfu,
                2 => EvictionPolicy::Fifo,
                _ => EvictionPolicy::Random,
            };
            // 0..=3: the entry limit drives eviction; 4..=7: the byte limit does (values are 8-47 bytes, two fit at most)
            let cfg = if p < 4 {
                MemoryCacheConfig::new().with_max_entries(2).with_max_memory(1 << 30).with_eviction_policy(policy)
            } else {
                MemoryCacheConfig::new().with_max_entries(10_000).with_max_memory(64).with_eviction_policy(policy)
            };
            let c: MemoryCache<SKey> = MemoryCache::new(cfg).map_err(|e| e.to_string())?;
            Ok(Built { subject: Arc::new(AsyncSubject { cache: Arc::new(c), reports_bytes: true, plain_put: true }), _dir: None, sync_only: false, _rt: None })
        }
        Kind::Dynamic | Kind::DynamicLru => {
            let dir = scratch_dir()?;
            let mut b = cascette_client_storage::container::DynamicContainer::builder(dir.path().join("data"));
            if kind == Kind::DynamicLru {
                // capacity far above the three keys: the table never has to give a slot back
                let lru = cascette_client_storage::lru::LruManager::new(64, dir.path().join("data"));
                b = b.lru(Arc::new(parking_lot::RwLock::new(lru)));
            }
            let c = b.build().map_err(|e| e.to_string())?;
            let rt = tokio::runtime::Builder::new_current_thread().enable_all().build().map_err(|e| e.to_string())?;
            rt.block_on(c.open()).map_err(|e| e.to_string())?;
            let payloads = [dyn_payload(0), dyn_payload(1), dyn_payload(2)];
            let keys = [dyn_key(&payloads[0]), dyn_key(&payloads[1]), dyn_key(&payloads[2])];
            Ok(Built { subject: Arc::new(DynSubject { c, payloads, keys }), _dir: Some(dir), sync_only: false, _rt: None })
        }
        Kind::MultiLayer => {
            use cascette_cache::config::MultiLayerCacheConfig;
            use cascette_cache::traits::MultiLayerCache;
            let rt = tokio::runtime::Builder::new_multi_thread().worker_threads(1).enable_all().build().map_err(|e| e.to_string())?;
            let cfg = MultiLayerCacheConfig::new()
                .add_memory_layer(MemoryCacheConfig::new().with_max_entries(10_000).with_max_memory(1 << 30))
                .add_memory_layer(MemoryCacheConfig::new().with_max_entries(10_000).with_max_memory(1 << 30));
            let c: cascette_cache::MultiLayerCacheImpl<SKey> = {
                let _g = rt.enter();
                cascette_cache::MultiLayerCacheImpl::new(cfg).map_err(|e| e.to_string())?
            };
            // pre-seed the slower layer so that gets are served by it (second hits exercise the promotion tracker)
            for k in 0..2u8 {
                rt.block_on(c.put_to_layer(SKey(key_name(k)), Bytes::from(value_bytes(9000 + u32::from(k))), 1)).map_err(|e| e.to_string())?;
            }
            Ok(Built { subject: Arc::new(AsyncSubject { cache: Arc::new(c), reports_bytes: false, plain_put: true }), _dir: None, sync_only: false, _rt: Some(rt) })
        }
        Kind::DiskFlat | Kind::DiskSubdirs | Kind::DiskReopened => {
            let dir = scratch_dir()?;
            let cfg = DiskCacheConfig::new(dir.path())
                .with_max_files(100_000)
                .with_subdirectories(kind == Kind::DiskSubdirs, if kind == Kind::DiskSubdirs { 2 } else { 0 });
            let c: DiskCache<SKey> = DiskCache::new(cfg).map_err(|e| e.to_string())?;
            Ok(Built { subject: Arc::new(AsyncSubject { cache: Arc::new(c), reports_bytes: true, plain_put: kind == Kind::DiskSubdirs }), _dir: Some(dir), sync_only: false, _rt: None })
        }
        Kind::ProtocolMemory | Kind::ProtocolDisk | Kind::ProtocolMemoryInRuntime | Kind::ProtocolDiskInRuntime => {
            let dir = if matches!(kind, Kind::ProtocolDisk | Kind::ProtocolDiskInRuntime) { Some(scratch_dir()?) } else { None };
            let cfg = cascette_protocol::config::CacheConfig {
                cache_dir: dir.as_ref().map(|d| d.path().to_path_buf()),
                memory_max_items: 10_000,
                memory_max_size_bytes: 1 << 30,
                ..Default::default()
            };
            let c = cascette_protocol::cache::ProtocolCache::new(&cfg).map_err(|e| e.to_string())?;
            // in-runtime kinds are driven from inside a tokio runtime: ProtocolCache then ships every operation to a new thread
            let sync_only = matches!(kind, Kind::ProtocolMemory | Kind::ProtocolDisk);
            Ok(Built { subject: Arc::new(ProtoSubject { cache: c }), _dir: dir, sync_only, _rt: None })
        }
    }
}

#[derive(Debug, Clone)]
struct Workload {
    kind: Kind,
    prepop: Vec<OpSpec>,
    tasks: Vec<Vec<OpSpec>>,
}

impl Workload {
    fn to_json(&self) -> Value {
        json!({
            "kind": self.kind.name(),
            "prepopulate": self.prepop.iter().map(|o| o.to_json()).collect::<Vec<_>>(),
            "tasks": self.tasks.iter().map(|t| t.iter().map(|o| o.to_json()).collect::<Vec<_>>()).collect::<Vec<_>>(),
        })
    }
    fn from_json(v: &Value) -> Option<Self> {
        let kind = Kind::from_name(v.get("kind")?.as_str()?)?;
        let prepop = v.get("prepopulate")?.as_array()?.iter().filter_map(OpSpec::from_json).collect();
        let tasks = v
            .get("tasks")?
            .as_array()?
            .iter()
            .map(|t| t.as_array().map(|a| a.iter().filter_map(OpSpec::from_json).collect()).unwrap_or_default())
            .collect();
        Some(Self { kind, prepop, tasks })
    }
    fn hash(&self) -> u64 {
        fnv64(self.to_json().to_string().as_bytes())
    }
}

fn gen_workload(rng: &mut Rng, kind: Kind, max_ops: usize) -> Workload {
    let mut next_id = 1u32;
    let mut fresh = || {
        let v = next_id;
        next_id += 1;
        v
    };
    // prepopulation of the hot key: nothing, live value, or an already-expired value
    let mut prepop: Vec<OpSpec> = Vec::new();
    match rng.below(4) {
        0 => {}
        1 => prepop.push(OpSpec::Put(0, fresh())),
        _ => prepop.push(OpSpec::PutTtl0(0, fresh())),
    }
    if rng.chance(1, 3) {
        prepop.push(if rng.bool() { OpSpec::Put(1, fresh()) } else { OpSpec::PutTtl0(1, fresh()) });
    }
    let ntasks = rng.urange(2, 3);
    let has_clear_budget = rng.chance(1, 6);
    let mut tasks = Vec::new();
    for t in 0..ntasks {
        let nops = rng.urange(1, max_ops);
        let mut ops = Vec::new();
        for _ in 0..nops {
            let k: u8 = match rng.below(10) {
                0..=6 => 0,
                7 | 8 => 1,
                _ => 2, // the disjoint key is only ever used by task t == 0 below
            };
            let k = if k == 2 && t != 0 { 0 } else { k };
            let op = match rng.below(20) {
                0..=5 => OpSpec::Get(k),
                6 | 7 => OpSpec::Contains(k),
                8..=12 => OpSpec::Put(k, fresh()),
                13..=15 => OpSpec::PutTtl0(k, fresh()),
                16..=18 => OpSpec::Remove(k),
                _ => {
                    if has_clear_budget { OpSpec::Clear } else { OpSpec::Get(k) }
                }
            };
            ops.push(op);
        }
        tasks.push(ops);
    }
    if kind == Kind::DiskReopened {
        // the earlier instance leaves live files behind (a time-to-live does not survive the instance: C10's subject)
        for op in &mut prepop {
            if let OpSpec::PutTtl0(k, id) = *op {
                *op = OpSpec::Put(k, id);
            }
        }
        if prepop.is_empty() {
            prepop.push(OpSpec::Put(0, 900_001));
        }
        // `contains` consults the index only: for a file an earlier instance left behind it says false until the first
        // get adopts the file. That is a (sequential) question about contains on a re-created cache — C10 records it as an
        // observation, the statements make no claim about it — so this kind asks with get instead
        for ops in &mut tasks {
            for op in ops.iter_mut() {
                if let OpSpec::Contains(k) = *op {
                    *op = OpSpec::Get(k);
                }
            }
        }
    }
    if matches!(kind, Kind::Dynamic | Kind::DynamicLru) {
        // content-addressed store: one fixed value per key, no expiry, no clear (an index flush instead)
        let fix = |op: &mut OpSpec| {
            *op = match *op {
                OpSpec::Put(k, _) | OpSpec::PutTtl0(k, _) => OpSpec::Put(k, u32::from(k) + 1),
                OpSpec::Clear => OpSpec::Flush(0),
                o => o,
            }
        };
        prepop.iter_mut().for_each(fix);
        for ops in &mut tasks {
            ops.iter_mut().for_each(fix);
            // one operation in six becomes a flush of the index (all buckets for key 0, the key's bucket otherwise)
            for op in ops.iter_mut() {
                if rng.chance(1, 6) {
                    let k = match *op {
                        OpSpec::Get(k) | OpSpec::Contains(k) | OpSpec::Put(k, _) | OpSpec::PutTtl0(k, _) | OpSpec::Remove(k) | OpSpec::Flush(k) => k,
                        OpSpec::Clear => 0,
                    };
                    *op = OpSpec::Flush(k);
                }
            }
        }
    }
    if matches!(kind, Kind::ProtocolMemory | Kind::ProtocolDisk | Kind::ProtocolMemoryInRuntime | Kind::ProtocolDiskInRuntime) {
        // ProtocolCache has no remove: use get instead (contains goes through warm_cache)
        for ops in &mut tasks {
            for op in ops.iter_mut() {
                if let OpSpec::Remove(k) = *op {
                    *op = OpSpec::Get(k);
                }
            }
        }
    }
    Workload { kind, prepop, tasks }
}

struct Execution {
    history: Vec<Rec>,
    final_gets: Vec<Option<u32>>,
    final_errs: Vec<String>,
    books: Result<Books, String>,
    judge_books: bool,
    outcome: Option<baton::Outcome>,
}

fn drive<T>(sync_only: bool, fut: impl std::future::Future<Output = T>) -> T {
    if sync_only {
        // ProtocolCache must be called outside any runtime; its methods are
        // not async, the future completes at first poll.
        futures::executor::block_on(fut)
    } else {
        let rt = tokio::runtime::Builder::new_current_thread().enable_all().build().expect("runtime");
        rt.block_on(fut)
    }
}

#[derive(Clone)]
enum Mode {
    Baton { rng: Rng, script: Option<Vec<u8>>, switch_pct: u64 },
    Stress { seed: u64, max_spin_ns: u64 },
}

/// `execute` under a wall-clock watchdog for subjects that may dead-lock (a hung thread cannot
/// be killed: it is leaked). A firing watchdog is re-tried twice by the caller before it counts.
fn execute_guarded(w: &Workload, mode: Mode) -> Result<Execution, String> {
    if w.kind != Kind::MultiLayer {
        return execute(w, mode);
    }
    let w2 = w.clone();
    match vh::monitor::watchdog::run_with_timeout(Duration::from_secs(15), move || execute(&w2, mode)) {
        vh::monitor::watchdog::Outcome::Done(r) => r,
        vh::monitor::watchdog::Outcome::Panicked(m) => Err(format!("task panicked: {m}")),
        vh::monitor::watchdog::Outcome::TimedOut => Err("hang: execution did not finish within 15 s".to_string()),
    }
}

/// Called when an execution hung: re-run it twice; only a hang that reproduces is a violation.
fn handle_hang(ctx: &Ctx, w: &Workload, mode: &Mode) {
    let again = (0..2).filter(|_| matches!(execute_guarded(w, mode.clone()), Err(e) if e.starts_with("hang"))).count();
    if again == 2 {
        ctx.violation(
            &format!("C11|{}|never-returns|concurrent-access", w.kind.family()),
            "concurrent operations on the subject did not return within 15 s in three consecutive executions of the same workload",
            json!({"workload": w.to_json()}),
        );
    } else {
        ctx.obs("hang_not_reproduced", 1);
    }
}

fn execute(w: &Workload, mode: Mode) -> Result<Execution, String> {
    let built = build(w.kind)?;
    let subject = Arc::clone(&built.subject);
    let sync_only = built.sync_only;
    let clock = Arc::new(AtomicU64::new(1));
    let log: Arc<Mutex<Vec<Rec>>> = Arc::new(Mutex::new(Vec::new()));

    // sequential prepopulation (no handler on this thread: hooks are no-ops)
    for op in &w.prepop {
        let call = clock.fetch_add(1, Ordering::SeqCst);
        let res = drive(sync_only, subject.apply(*op));
        let ret = clock.fetch_add(1, Ordering::SeqCst);
        log.lock().unwrap_or_else(std::sync::PoisonError::into_inner).push(Rec { task: 255, call, ret, done: Done { spec: *op, res } });
    }

    // the instance that wrote the pre-population goes away; a new one over the same directory is the subject
    let (built, subject) = if w.kind == Kind::DiskReopened {
        let dir = built._dir.ok_or("harness: reopened kind without a directory")?;
        drop(subject);
        drop(built.subject);
        let cfg = DiskCacheConfig::new(dir.path()).with_max_files(100_000).with_subdirectories(false, 0);
        let c: DiskCache<SKey> = DiskCache::new(cfg).map_err(|e| e.to_string())?;
        let b = Built { subject: Arc::new(AsyncSubject { cache: Arc::new(c), reports_bytes: true, plain_put: false }), _dir: Some(dir), sync_only: false, _rt: None };
        let s2 = Arc::clone(&b.subject);
        (b, s2)
    } else {
        (built, subject)
    };
    let _keep = &built;

    let mut closures: Vec<Box<dyn FnOnce() + Send>> = Vec::new();
    for (t, ops) in w.tasks.iter().enumerate() {
        let ops = ops.clone();
        let subject = Arc::clone(&subject);
        let clock = Arc::clone(&clock);
        let log = Arc::clone(&log);
        closures.push(Box::new(move || {
            let run = async {
                for op in ops {
                    let call = clock.fetch_add(1, Ordering::SeqCst);
                    let res = subject.apply(op).await;
                    let ret = clock.fetch_add(1, Ordering::SeqCst);
                    log.lock().unwrap_or_else(std::sync::PoisonError::into_inner).push(Rec { task: t as u8, call, ret, done: Done { spec: op, res } });
                }
            };
            drive(sync_only, run);
        }));
    }

    let outcome = match mode {
        Mode::Baton { rng, script, switch_pct } => Some(baton::run_scheduled(closures, rng, script, switch_pct)),
        Mode::Stress { seed, max_spin_ns } => {
            let barrier = Arc::new(std::sync::Barrier::new(closures.len()));
            let mut hs = Vec::new();
            for (i, c) in closures.into_iter().enumerate() {
                let b = Arc::clone(&barrier);
                hs.push(std::thread::spawn(move || {
                    baton::set_thread_jitter(Rng::derive(seed, i as u64), max_spin_ns);
                    b.wait();
                    c();
                    baton::clear_thread_handler();
                }));
            }
            for h in hs {
                h.join().map_err(|_| "task panicked".to_string())?;
            }
            None
        }
    };
    if let Some(o) = &outcome {
        if let Some((t, msg)) = o.panics.first() {
            return Err(format!("task {t} panicked: {msg}"));
        }
    }

    // quiescence: sweep get over the key universe (purges lazily expired entries), then read the books
    let mut final_gets = Vec::new();
    let mut final_errs = Vec::new();
    for k in 0..NKEYS as u8 {
        let call = clock.fetch_add(1, Ordering::SeqCst);
        let res = drive(sync_only, subject.apply(OpSpec::Get(k)));
        let ret = clock.fetch_add(1, Ordering::SeqCst);
        match &res {
            Res::Value(v) => final_gets.push(*v),
            Res::Err(e) => {
                final_gets.push(None);
                final_errs.push(e.clone());
            }
            _ => final_gets.push(None),
        }
        log.lock().unwrap_or_else(std::sync::PoisonError::into_inner).push(Rec { task: 254, call, ret, done: Done { spec: OpSpec::Get(k), res } });
    }
    let books = drive(sync_only, subject.books());
    let mut history = log.lock().unwrap_or_else(std::sync::PoisonError::into_inner).clone();
    history.sort_by_key(|r| r.call);
    let judge_books = subject.judge_books();
    Ok(Execution { history, final_gets, final_errs, books, judge_books, outcome })
}

fn history_json(h: &[Rec]) -> Value {
    Value::Array(
        h.iter()
            .map(|r| {
                json!({"task": r.task, "call": r.call, "ret": r.ret, "op": r.done.spec.to_json(), "res": match &r.done.res {
                    Res::Value(v) => json!({"value": v}),
                    Res::Bool(b) => json!({"bool": b}),
                    Res::Unit => json!("ok"),
                    Res::Err(e) => json!({"err": e}),
                }})
            })
            .collect(),
    )
}

/// Judge one execution. Returns the list of (signature, summary).
fn judge(w: &Workload, ex: &Execution) -> (Vec<(String, String)>, bool) {
    let fam = w.kind.family();
    let mut out = Vec::new();
    let mut inconclusive = false;
    // 1. failures without injected faults
    for r in &ex.history {
        if let Res::Err(e) = &r.done.res {
            out.push((
                format!("C11|{fam}|op-failed-without-fault|{}|{}", r.done.spec.name(), err_class(e)),
                format!("{} returned an error although no fault was injected: {e}", r.done.spec.name()),
            ));
        }
    }
    // 2. torn values
    for r in &ex.history {
        if r.done.res == Res::Value(Some(TORN)) {
            out.push((format!("C11|{fam}|torn-or-foreign-value"), "get returned bytes that no put wrote".to_string()));
        }
    }
    if w.kind == Kind::MultiLayer {
        // layered cache: several stores behind one key, judged weakly here (C12 judges its coherence):
        // a returned value must have been written for that key by some put (or be the pre-seeded L2 value)
        for r in &ex.history {
            if let (OpSpec::Get(k), Res::Value(Some(id))) = (&r.done.spec, &r.done.res) {
                let written = *id == 9000 + u32::from(*k)
                    || ex.history.iter().any(|p| matches!(p.done.spec, OpSpec::Put(pk, pid) | OpSpec::PutTtl0(pk, pid) if pk == *k && pid == *id));
                if !written && *id != TORN {
                    out.push((format!("C11|{fam}|get-returns-value-never-written-for-this-key"), "get returned a well-formed value that no put wrote for this key".to_string()));
                }
            }
        }
        return (out, inconclusive);
    }
    // 3. linearizability
    let events: Vec<Event<Done>> = ex.history.iter().map(|r| Event { call: r.call, ret: r.ret, op: r.done.clone() }).collect();
    let had_expiring: bool = ex.history.iter().any(|r| matches!(r.done.spec, OpSpec::PutTtl0(..)));
    // MemoryTtlPolicy is not "evicting": that policy only ever drops expired entries, which the model leaves open anyway
    let model = RegModel { evicting: matches!(w.kind, Kind::MemoryEvicting(_)) };
    match linz::check(&model, [0; NKEYS], &events, 2_000_000) {
        Verdict::Linearizable => {}
        Verdict::Budget => inconclusive = true,
        Verdict::NotLinearizable => {
            // find the first operation (by return time) whose inclusion breaks linearizability
            let mut order: Vec<usize> = (0..events.len()).collect();
            order.sort_by_key(|&i| events[i].ret);
            let mut culprit = None;
            for n in 1..=order.len() {
                let mut idx: Vec<usize> = order[..n].to_vec();
                idx.sort_unstable();
                let sub: Vec<Event<Done>> = idx.iter().map(|&i| events[i].clone()).collect();
                if linz::check(&model, [0; NKEYS], &sub, 2_000_000) == Verdict::NotLinearizable {
                    culprit = Some(order[n - 1]);
                    break;
                }
            }
            let desc = culprit.map_or("unknown".to_string(), |i| {
                let d = &events[i].op;
                let r = match &d.res {
                    Res::Value(Some(TORN)) => "torn".to_string(),
                    Res::Value(Some(_)) => "some-value".to_string(),
                    Res::Value(None) => "none".to_string(),
                    Res::Bool(b) => b.to_string(),
                    Res::Unit => "ok".to_string(),
                    Res::Err(_) => "err".to_string(),
                };
                format!("{}->{}", d.spec.name(), r)
            });
            let ctxs = if had_expiring { "with-expiring-entries" } else { "no-expiring-entries" };
            out.push((
                format!("C11|{fam}|not-linearizable|first-unexplained={desc}|{ctxs}"),
                format!("no linearization of the recorded history against the per-key register model; first operation that cannot be explained: {desc}"),
            ));
        }
    }
    // 4. books at quiescence
    match &ex.books {
        Err(e) => out.push((format!("C11|{fam}|op-failed-without-fault|size-or-stats|{}", err_class(e)), format!("size()/stats() failed: {e}"))),
        Ok(Books { counts, bytes, empty }) => {
            if ex.final_errs.is_empty() && ex.judge_books {
                let real_count = ex.final_gets.iter().filter(|v| v.is_some()).count();
                let real_bytes: u64 = ex.final_gets.iter().flatten().filter(|&&id| id != TORN).map(|&id| value_bytes(id).len() as u64).sum();
                // every API that reports an entry count reports the same thing: the real contents
                for (api, count) in counts {
                    if *count != real_count {
                        out.push((
                            format!("C11|{fam}|books|entry-count!=contents-after-quiescence|{}", if *count > real_count { "reported-more" } else { "reported-fewer" }),
                            format!("after all tasks finished {api} reports {count} entries but {real_count} keys are retrievable"),
                        ));
                    }
                }
                if let Some(e) = empty {
                    if *e != (real_count == 0) {
                        out.push((
                            format!("C11|{fam}|books|is_empty!=contents-after-quiescence|{}", if *e { "reports-empty" } else { "reports-non-empty" }),
                            format!("after all tasks finished is_empty() reports {e} but {real_count} keys are retrievable"),
                        ));
                    }
                }
                if let Some(b) = bytes {
                    if *b != real_bytes {
                        out.push((
                            format!("C11|{fam}|books|byte-usage!=contents-after-quiescence|{}", if *b > real_bytes { "reported-more" } else { "reported-fewer" }),
                            format!("after all tasks finished stats() reports {b} bytes but retrievable values total {real_bytes} bytes"),
                        ));
                    }
                }
            }
        }
    }
    (out, inconclusive)
}

/// Systematic part: for tiny workloads (two or three tasks, one operation each, hot key, every
/// pre-population) ALL interleavings at hook granularity are enumerated by depth-first search over
/// the baton's decisions (re-execution with a decision prefix; beyond the prefix the lowest runnable
/// task is chosen; every alternative at every later decision becomes a new prefix).
fn systematic(ctx: &Ctx, workloads: Vec<Workload>, label: &'static str, max_execs_per_workload: u64, time_budget: Duration) {
    let deadline = std::time::Instant::now() + time_budget;
    let queue = Mutex::new(workloads);
    let total_paths = AtomicU64::new(0);
    let complete = AtomicU64::new(0);
    let truncated = AtomicU64::new(0);
    std::thread::scope(|s| {
        for _ in 0..16 {
            let queue = &queue;
            let total_paths = &total_paths;
            let complete = &complete;
            let truncated = &truncated;
            s.spawn(move || loop {
                let Some(w) = queue.lock().unwrap_or_else(std::sync::PoisonError::into_inner).pop() else { break };
                let mut stack: Vec<Vec<u8>> = vec![Vec::new()];
                let mut execs = 0u64;
                let mut cut = false;
                while let Some(prefix) = stack.pop() {
                    if execs >= max_execs_per_workload || std::time::Instant::now() > deadline {
                        cut = true;
                        break;
                    }
                    execs += 1;
                    let mode = Mode::Baton { rng: Rng::new(0), script: Some(prefix.clone()), switch_pct: 0 };
                    let ex = match execute_guarded(&w, mode) {
                        Ok(e) => e,
                        Err(e) => {
                            if e.contains("panicked") {
                                ctx.violation(&format!("C11|{}|panic-in-operation", w.kind.family()), &e, json!({"workload": w.to_json(), "decisions": prefix}));
                            }
                            continue;
                        }
                    };
                    let Some(o) = ex.outcome.as_ref() else { continue };
                    if o.free_running_fallback {
                        // a task did not reach a hook for a long time (machine load): this path is not
                        // replayable, so the enumeration of this workload is not complete
                        ctx.obs("systematic.free_running_fallback", 1);
                        cut = true;
                        continue;
                    }
                    let trace_hash = o.trace.iter().fold(w.hash(), |h, (t, s)| mix64(h, mix64(u64::from(*t), fnv64(s.as_bytes()))));
                    let switches = o.trace.windows(2).filter(|p| p[0].0 != p[1].0).count();
                    if switches >= 1 {
                        ctx.eval_nontrivial(mix64(trace_hash, fnv64(&o.decisions)));
                    } else {
                        ctx.eval();
                    }
                    let (viol, _) = judge(&w, &ex);
                    for (sig, summary) in viol {
                        ctx.violation(&sig, &summary, json!({
                            "mode": "baton",
                            "part": "systematic",
                            "workload": w.to_json(),
                            "decisions": o.decisions,
                            "switch_pct": 0,
                            "trace": o.trace.iter().map(|(t, s)| format!("T{t}:{s}")).collect::<Vec<_>>(),
                            "history": history_json(&ex.history),
                            "final_gets": ex.final_gets,
                        }));
                    }
                    // expand: alternatives at every decision beyond the prefix
                    for i in (prefix.len()..o.decisions.len()).rev() {
                        for &c in &o.choices[i] {
                            if c > o.decisions[i] {
                                let mut p = o.decisions[..i].to_vec();
                                p.push(c);
                                stack.push(p);
                            }
                        }
                    }
                }
                total_paths.fetch_add(execs, Ordering::Relaxed);
                if cut {
                    truncated.fetch_add(1, Ordering::Relaxed);
                } else {
                    complete.fetch_add(1, Ordering::Relaxed);
                }
                ctx.obs(&format!("systematic.{label}.workloads.{}", w.kind.family()), 1);
            });
        }
    });
    ctx.obs(&format!("systematic.{label}.interleavings_executed"), total_paths.load(Ordering::Relaxed));
    ctx.obs(&format!("systematic.{label}.workloads_enumerated_completely"), complete.load(Ordering::Relaxed));
    ctx.obs(&format!("systematic.{label}.workloads_cut_at_budget"), truncated.load(Ordering::Relaxed));
}

fn systematic_workloads(kinds: &[Kind], ntasks: usize, alphabet: &[u8]) -> Vec<Workload> {
    // op codes: 0 get, 1 contains, 2 put, 3 put_ttl0, 4 remove, 5 clear — all on the hot key;
    // 6 put on the warm key (a put whose eviction pass meets the hot key's entry)
    let mk = |code: u8, id: u32| match code {
        0 => OpSpec::Get(0),
        1 => OpSpec::Contains(0),
        2 => OpSpec::Put(0, id),
        3 => OpSpec::PutTtl0(0, id),
        4 => OpSpec::Remove(0),
        6 => OpSpec::Put(1, id),
        _ => OpSpec::Clear,
    };
    let mut out = Vec::new();
    let n = alphabet.len();
    let combos = n.pow(ntasks as u32);
    for &kind in kinds {
        for prepop in 0..3u8 {
            for combo in 0..combos {
                let mut codes = Vec::new();
                let mut c = combo;
                for _ in 0..ntasks {
                    codes.push(alphabet[c % n]);
                    c /= n;
                }
                // tasks are interchangeable: keep one representative per multiset
                if codes.windows(2).any(|p| p[0] > p[1]) {
                    continue;
                }
                let prepop_ops = match prepop {
                    0 => vec![],
                    1 => vec![OpSpec::Put(0, 1)],
                    _ => vec![OpSpec::PutTtl0(0, 1)],
                };
                let mut tasks: Vec<Vec<OpSpec>> = codes.iter().enumerate().map(|(t, &code)| vec![mk(code, 10 + t as u32)]).collect();
                if matches!(kind, Kind::Dynamic | Kind::DynamicLru) {
                    for ops in &mut tasks {
                        for op in ops.iter_mut() {
                            *op = match *op {
                                OpSpec::Put(k, _) | OpSpec::PutTtl0(k, _) => OpSpec::Put(k, u32::from(k) + 1),
                                OpSpec::Clear => OpSpec::Flush(0),
                                o => o,
                            };
                        }
                    }
                }
                let prepop_ops = if matches!(kind, Kind::Dynamic | Kind::DynamicLru) {
                    prepop_ops.into_iter().map(|o| match o { OpSpec::Put(k, _) | OpSpec::PutTtl0(k, _) => OpSpec::Put(k, u32::from(k) + 1), o => o }).collect()
                } else {
                    prepop_ops
                };
                out.push(Workload { kind, prepop: prepop_ops, tasks });
            }
        }
    }
    out
}

/// `DiskCache::new_with_background_tasks` spawns a task that executes the external `sync` command (flushes every
/// file system of the machine) once at start-up — irrelevant here and arbitrarily slow on a busy host: shadow
/// it with /bin/true through PATH (same device as in C10/C12).
fn install_noop_sync() -> Option<tempfile::TempDir> {
    let dir = tempfile::Builder::new().prefix("vh-c11-bin-").tempdir().ok()?;
    let truebin = ["/bin/true", "/usr/bin/true"].into_iter().find(|p| std::path::Path::new(p).exists())?;
    std::os::unix::fs::symlink(truebin, dir.path().join("sync")).ok()?;
    let old = std::env::var("PATH").unwrap_or_default();
    // SAFETY: called at the very start of main, before any other thread exists.
    unsafe { std::env::set_var("PATH", format!("{}:{old}", dir.path().display())) };
    Some(dir)
}

fn main() {
    let fake_bin = install_noop_sync();
    let ctx = Ctx::init("C11", "exploration");
    if fake_bin.is_none() {
        ctx.obs("harness.noop_sync_not_installed", 1);
    }
    ctx.set_rule("executions of 2-3 concurrent tasks x 1-3 (quick) / 1-6 (thorough) operations from {get, contains, put, put_with_ttl(0), remove, clear} on a hot key, a warm key and a disjoint key over MemoryCache, DiskCache (flat/subdirs) and ProtocolCache (memory/disk), every written value unique; baton mode interleaves at the repository's sched_point hooks under a seeded controller, stress mode runs free with injected spins; non-trivial = at least two tasks were interleaved at a hook (baton) or overlapped in logical time (stress) on the same key; distinct by hash of (workload, interleaving trace)");
    ctx.assume("interleavings are explored at the granularity of the sched_point hook sites (baton) plus what 16 cores produce (stress); windows without a hook that the hardware does not hit stay unseen");
    ctx.assume("the linearizability checker is exact for these history sizes (<= 64 operations)");
    baton::install_global_controller();

    if let Some(detail) = ctx.replay_detail() {
        replay(&ctx, &detail);
        drop(fake_bin);
        ctx.finish();
    }

    // ---- systematic part: every interleaving of 2 tasks x 1 operation (all kinds of the alphabet, all
    // pre-populations) on the hot key; thorough adds 3 tasks x 1 operation and 2 x 2 for the memory cache
    {
        let all: [u8; 6] = [0, 1, 2, 3, 4, 5];
        let mut two = systematic_workloads(&[Kind::Memory, Kind::MemoryEvicting(0), Kind::MemoryEvicting(4), Kind::DiskFlat, Kind::Dynamic], 2, &all);
        // Ttl policy with max_entries = 1: every put runs the expired-entry eviction pass; the alphabet gets a
        // put on a second key so that one task's eviction pass can meet the other task's fresh entry
        let with_warm_put: [u8; 7] = [0, 1, 2, 3, 4, 5, 6];
        two.extend(systematic_workloads(&[Kind::MemoryTtlPolicy], 2, &with_warm_put));
        // reopened over existing files: only the pre-populated workloads are of interest (the file to adopt must exist)
        let no_contains: [u8; 5] = [0, 2, 3, 4, 5];
        two.extend(systematic_workloads(&[Kind::DiskReopened], 2, &no_contains).into_iter().filter(|w| matches!(w.prepop.first(), Some(OpSpec::Put(_, _)))));
        ctx.obs("systematic.two_tasks.workloads", two.len() as u64);
        systematic(&ctx, two, "two_tasks", 20_000, Duration::from_secs(ctx.pick(40, 120)));
        if !ctx.quick() {
            let three = systematic_workloads(&[Kind::Memory, Kind::DiskFlat], 3, &all);
            ctx.obs("systematic.three_tasks.workloads", three.len() as u64);
            systematic(&ctx, three, "three_tasks", 60_000, Duration::from_secs(150));
        }
    }
    let max_ops = ctx.pick(3usize, 6usize);
    let baton_execs: u64 = ctx.pick(24_000, 400_000);
    let stress_execs: u64 = ctx.pick(9_000, 100_000);
    let threads = 16u64;
    let interleavings: Mutex<HashSet<u64>> = Mutex::new(HashSet::new());
    let site_hits: Mutex<BTreeMap<&'static str, u64>> = Mutex::new(BTreeMap::new());
    let deadline = std::time::Instant::now() + Duration::from_secs(ctx.pick(30, 200));

    std::thread::scope(|s| {
        for t in 0..threads {
            let ctx = &ctx;
            let interleavings = &interleavings;
            let site_hits = &site_hits;
            s.spawn(move || {
                let mut rng = ctx.rng(1000 + t);
                let mut local_sites: BTreeMap<&'static str, u64> = BTreeMap::new();
                for i in 0..(baton_execs / threads) {
                    if std::time::Instant::now() > deadline {
                        ctx.obs("baton.stopped_by_time_budget", 1);
                        break;
                    }
                    // disk-backed kinds are slower (fsync): give them a smaller share
                    let kind = match rng.below(20) {
                        0..=5 => Kind::Memory,
                        6 => Kind::MemoryTtlPolicy,
                        7..=9 => Kind::MemoryEvicting(rng.below(8) as u8),
                        10 | 11 => Kind::DiskFlat,
                        12 => Kind::DiskReopened,
                        13 => Kind::DiskSubdirs,
                        14 | 15 => Kind::ProtocolMemory,
                        16 => Kind::ProtocolDisk,
                        17 => Kind::MultiLayer,
                        18 => Kind::Dynamic,
                        _ => Kind::DynamicLru,
                    };
                    let w = gen_workload(&mut rng, kind, max_ops);
                    let sched_rng = Rng::derive(ctx.seed, mix64(t, i) ^ 0xba70);
                    let switch_pct = *rng.pick(&[30u64, 50, 70, 90]);
                    let mode = Mode::Baton { rng: sched_rng, script: None, switch_pct };
                    let ex = match execute_guarded(&w, mode.clone()) {
                        Ok(e) => e,
                        Err(e) => {
                            if e.starts_with("hang") {
                                handle_hang(ctx, &w, &mode);
                            } else if e.contains("panicked") {
                                ctx.violation(&format!("C11|{}|panic-in-operation", w.kind.family()), &e, json!({"workload": w.to_json()}));
                            } else {
                                ctx.inconclusive(&format!("could not build subject: {e}"));
                            }
                            continue;
                        }
                    };
                    let o = ex.outcome.as_ref().expect("baton outcome");
                    ctx.obs(&format!("baton.executions.{}", w.kind.name()), 1);
                    if o.free_running_fallback {
                        ctx.obs("baton.free_running_fallback", 1);
                    }
                    for (_, site) in &o.trace {
                        *local_sites.entry(site).or_insert(0) += 1;
                    }
                    let tasks_seen: HashSet<u8> = o.trace.iter().map(|(t, _)| *t).collect();
                    // interleaved = the trace switches between tasks at least once
                    let switches = o.trace.windows(2).filter(|p| p[0].0 != p[1].0).count();
                    let trace_hash = o.trace.iter().fold(w.hash(), |h, (t, s)| mix64(h, mix64(u64::from(*t), fnv64(s.as_bytes()))));
                    if tasks_seen.len() >= 2 && switches >= 1 {
                        ctx.eval_nontrivial(trace_hash);
                        interleavings.lock().unwrap_or_else(std::sync::PoisonError::into_inner).insert(
                            o.trace.iter().fold(fnv64(w.kind.family().as_bytes()), |h, (t, s)| mix64(h, mix64(u64::from(*t), fnv64(s.as_bytes())))),
                        );
                    } else {
                        ctx.eval();
                    }
                    for r in &ex.history {
                        if r.task < 250 {
                            ctx.obs(&format!("op.{}", r.done.spec.name()), 1);
                        }
                    }
                    let (viol, inconc) = judge(&w, &ex);
                    if inconc {
                        ctx.obs("checker_budget_exhausted", 1);
                    }
                    for (sig, summary) in viol {
                        ctx.violation(&sig, &summary, json!({
                            "mode": "baton",
                            "workload": w.to_json(),
                            "decisions": o.decisions,
                            "switch_pct": switch_pct,
                            "trace": o.trace.iter().map(|(t, s)| format!("T{t}:{s}")).collect::<Vec<_>>(),
                            "history": history_json(&ex.history),
                            "final_gets": ex.final_gets,
                            "books": ex.books.as_ref().ok().map(|b| json!({"entries": b.counts.iter().map(|(api, n)| json!({"api": api, "count": n})).collect::<Vec<_>>(), "bytes": b.bytes, "is_empty": b.empty})),
                        }));
                    }
                    if ctx.want_sample() && switches >= 2 && i % 50 == 7 {
                        ctx.sample(json!({
                            "mode": "baton",
                            "workload": w.to_json(),
                            "trace": o.trace.iter().map(|(t, s)| format!("T{t}:{s}")).collect::<Vec<_>>(),
                            "history": history_json(&ex.history),
                        }));
                    }
                }
                let mut g = site_hits.lock().unwrap_or_else(std::sync::PoisonError::into_inner);
                for (k, v) in local_sites {
                    *g.entry(k).or_insert(0) += v;
                }
            });
        }
    });

    // stress mode: real parallelism, a few executions at a time (each uses 2-3 threads)
    let stress_deadline = std::time::Instant::now() + Duration::from_secs(ctx.pick(15, 100));
    std::thread::scope(|s| {
        for t in 0..6u64 {
            let ctx = &ctx;
            s.spawn(move || {
                let mut rng = ctx.rng(5000 + t);
                for i in 0..(stress_execs / 6) {
                    if std::time::Instant::now() > stress_deadline {
                        ctx.obs("stress.stopped_by_time_budget", 1);
                        break;
                    }
                    let kind = match rng.below(24) {
                        0..=5 => Kind::Memory,
                        6 => Kind::MemoryTtlPolicy,
                        7 => Kind::MemoryCleanupTask,
                        8..=10 => Kind::MemoryEvicting(rng.below(8) as u8),
                        11 | 12 => Kind::DiskFlat,
                        13 => Kind::DiskReopened,
                        14 => Kind::DiskCleanupTask,
                        15 => Kind::DiskSubdirs,
                        16 => Kind::ProtocolMemory,
                        17 => Kind::MultiLayer,
                        18 => Kind::Dynamic,
                        19 => Kind::DynamicLru,
                        20 => Kind::ProtocolMemoryInRuntime,
                        21 => Kind::ProtocolDiskInRuntime,
                        22 => Kind::DiskCleanupTask,
                        _ => Kind::Dynamic,
                    };
                    let mut w = gen_workload(&mut rng, kind, max_ops.max(4));
                    if matches!(kind, Kind::Dynamic | Kind::DynamicLru) && rng.bool() {
                        // concurrent writers of DIFFERENT objects (appends to the same archive file), each
                        // followed by reads of its own and of a neighbour's object
                        w.prepop.clear();
                        w.tasks = (0..3u8)
                            .map(|t| vec![OpSpec::Put(t, u32::from(t) + 1), OpSpec::Get(t), OpSpec::Get((t + 1) % 3), OpSpec::Get(t)])
                            .collect();
                    }
                    let mode = Mode::Stress { seed: mix64(ctx.seed, mix64(t, i)), max_spin_ns: 50_000 };
                    let ex = match execute_guarded(&w, mode.clone()) {
                        Ok(e) => e,
                        Err(e) => {
                            if e.starts_with("hang") {
                                handle_hang(ctx, &w, &mode);
                            } else if e.contains("panicked") {
                                ctx.violation(&format!("C11|{}|panic-in-operation", w.kind.family()), &e, json!({"workload": w.to_json()}));
                            }
                            continue;
                        }
                    };
                    ctx.obs(&format!("stress.executions.{}", w.kind.name()), 1);
                    // overlapped in logical time: some op of one task was called before another task's op returned
                    let overlapped = ex.history.iter().any(|a| {
                        a.task < 250 && ex.history.iter().any(|b| b.task < 250 && b.task != a.task && a.call < b.ret && b.call < a.ret)
                    });
                    let hh = ex.history.iter().fold(w.hash(), |h, r| mix64(h, mix64(r.call, r.ret)));
                    if overlapped {
                        ctx.eval_nontrivial(hh);
                        ctx.obs("stress.executions_with_overlap", 1);
                    } else {
                        ctx.eval();
                    }
                    let (viol, inconc) = judge(&w, &ex);
                    if inconc {
                        ctx.obs("checker_budget_exhausted", 1);
                    }
                    for (sig, summary) in viol {
                        ctx.violation(&sig, &summary, json!({
                            "mode": "stress",
                            "workload": w.to_json(),
                            "history": history_json(&ex.history),
                            "final_gets": ex.final_gets,
                            "books": ex.books.as_ref().ok().map(|b| json!({"entries": b.counts.iter().map(|(api, n)| json!({"api": api, "count": n})).collect::<Vec<_>>(), "bytes": b.bytes, "is_empty": b.empty})),
                        }));
                    }
                }
            });
        }
    });

    let n_inter = interleavings.lock().unwrap_or_else(std::sync::PoisonError::into_inner).len();
    ctx.obs("baton.distinct_interleavings", n_inter as u64);
    let sites = site_hits.lock().unwrap_or_else(std::sync::PoisonError::into_inner).clone();
    ctx.set_extra("hook_site_hits", json!(sites));
    let total_hits: u64 = sites.values().sum();
    if total_hits == 0 {
        ctx.inconclusive("no sched_point hook was reached (feature verif-hooks not compiled in?)");
    }
    let must_reach = [
        "memory.get.expired.before_remove",
        "memory.evict_expired.before_remove",
        "memory.put.before_insert",
        "disk.write_file.before_rename",
        "disk.put.before_index_update",
        "disk.get.after_index_read",
        "dynamic.write.after_archive_write",
        "dynamic.read.after_index_lookup",
    ];
    // a hook site is a point of the pinned implementation: an implementation that, say, never stores a value that is
    // expired on arrival has no "expired entry met by a get" to stop at. Individual sites are therefore reported, and
    // the floor is per subject family: the schedulers must have had something to work with in each of them
    for fam in ["memory.", "disk.", "dynamic."] {
        if !sites.keys().any(|k| k.starts_with(fam)) {
            ctx.inconclusive(&format!("no hook site of the {fam}* family was reached"));
        }
    }
    for m in must_reach {
        if !sites.contains_key(m) {
            ctx.obs(&format!("hook_site_not_reached.{m}"), 1);
        }
    }
    // sub-workloads the verdict relies on must have run
    for k in [
        "op.flush",
        "baton.executions.MemoryCache(ttl-policy)",
        "baton.executions.DynamicContainer(lru)",
        "stress.executions.MemoryCache(cleanup-task)",
        "stress.executions.DiskCache(cleanup-task)",
        "stress.executions.ProtocolCache(memory,in-runtime)",
        "stress.executions.ProtocolCache(disk,in-runtime)",
        "systematic.two_tasks.workloads.MemoryCache(ttl-policy)",
    ] {
        if ctx.get_obs(k) == 0 {
            ctx.inconclusive(&format!("sub-workload never ran: {k}"));
        }
    }
    drop(fake_bin);
    ctx.finish();
}

fn replay(ctx: &Ctx, detail: &Value) {
    let Some(w) = detail.get("workload").and_then(Workload::from_json) else {
        ctx.inconclusive("replay file has no workload");
        return;
    };
    let script: Option<Vec<u8>> = detail.get("decisions").and_then(Value::as_array).map(|a| a.iter().filter_map(|x| x.as_u64().map(|v| v as u8)).collect());
    let pct = detail.get("switch_pct").and_then(Value::as_u64).unwrap_or(50);
    println!("replaying workload {}", w.to_json());
    for round in 0..20u64 {
        let mode = if script.is_some() && detail.get("mode").and_then(Value::as_str) == Some("baton") {
            Mode::Baton { rng: Rng::new(round), script: script.clone(), switch_pct: pct }
        } else {
            Mode::Stress { seed: round, max_spin_ns: 50_000 }
        };
        match execute(&w, mode) {
            Ok(ex) => {
                ctx.eval_nontrivial(round);
                let (viol, _) = judge(&w, &ex);
                for (sig, summary) in viol {
                    println!("round {round}: {sig} :: {summary}");
                    println!("history: {}", history_json(&ex.history));
                    ctx.violation(&sig, &summary, detail.clone());
                }
            }
            Err(e) => println!("round {round}: execution error {e}"),
        }
        if script.is_some() && round >= 1 {
            break;
        }
    }
}
