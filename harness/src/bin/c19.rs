//! C19 — install and download manifests select exactly the tagged files.
//!
//! Workload: builder programs (add tag, add file(s), associate, dissociate,
//! remove file, remove tag, in any order, plus deliberately invalid steps that
//! the builder may refuse) for install manifests, download manifests v1..v3
//! and size manifests; a sweep gives EVERY final file count 0..=70 for every
//! manifest kind with a pattern that touches the last file, larger counts at
//! random; tag counts 0..=20; download sizes up to 2^40-1; priorities and base
//! priorities over the whole i8 range.
//!
//! Oracle: a set model `tag -> set<file id>` maintained next to the builder.
//! After build -> serialise -> parse, every query of the parsed manifest (per
//! tag, every pair, 30 random subsets: all-of / any-of, platform/priority
//! filters, size totals) must equal the model; an INDEPENDENT reader in this
//! file decodes the serialised bytes (own header/entry/tag parsing, masks read
//! MSB-first: bit of file i = mask[i/8] & (0x80 >> (i%8)), mask length =
//! ceil(n/8)) and must see the same file<->tag relation; a second independent
//! reader in Python (`pyref/c19.py`) re-checks the JSONL event log.
//!
//! Coverage-driven extension: programs also contain add-file-with-tags, re-keying, clear and reload steps (build ->
//! serialise -> parse -> Builder::from_manifest), install manifests are also given the V2 layout, download builders
//! are also made by the preset constructors, every third program goes through the CascFormat trait; the builders'
//! own state queries are compared with the model before the build, and the parsed manifest additionally answers
//! unknown-tag queries, tag mask algebra, tag-level platform / locale / name filters, statistics that are counts or
//! size totals, priority analysis and download plans, selections by extension.
//!
//! Round 4: a key may be listed more than once (an add repeats the key of a listed file, a re-key takes another file's
//! key); files keep their own identity in the model. Removal by such a key is judged at the step (and once more on a
//! copy of the final builder): one entry of the key or all of them leave, every other file stays with its tags.
//!
//! Not judged: builder refusals of individual steps (recorded); empty tag
//! lists in multi-tag queries; padding bits beyond the last file (recorded).

use cascette_crypto::{ContentKey, EncodingKey};
use cascette_formats::CascFormat;
use cascette_formats::download::priority::DownloadPlan;
use cascette_formats::download::tag::TagAnalysis;
use cascette_formats::download::{DownloadManifest, DownloadManifestBuilder, DownloadTag, PriorityCategory};
use cascette_formats::install::{InstallFileEntry, InstallHeader, InstallManifest, InstallManifestBuilder, InstallTag, TagType};
use cascette_formats::size::{SizeManifest, SizeManifestBuilder};
use serde_json::{Value, json};
use std::collections::{BTreeSet, HashMap};
use std::io::Write;
use std::sync::atomic::{AtomicUsize, Ordering};
use vh::{Ctx, Rng, fnv64, mix64};

const TAG_TYPES: [TagType; 17] = [
    TagType::Platform,
    TagType::Architecture,
    TagType::Locale,
    TagType::Category,
    TagType::Unknown,
    TagType::Component,
    TagType::Version,
    TagType::Optimization,
    TagType::Region,
    TagType::Device,
    TagType::Mode,
    TagType::Branch,
    TagType::Content,
    TagType::Feature,
    TagType::Expansion,
    TagType::Alternate,
    TagType::Option,
];
const NICE_NAMES: [&str; 10] = ["Windows", "OSX", "x86_64", "arm64", "enUS", "deDE", "日本", "speech", "EU", "Alternate"];
const MAX40: u64 = 0xFF_FFFF_FFFF;

#[derive(Default)]
struct Cnt {
    m: HashMap<String, u64>,
}
impl Cnt {
    fn add(&mut self, k: &str, n: u64) {
        *self.m.entry(k.to_string()).or_insert(0) += n;
    }
    fn flush(&mut self, ctx: &Ctx) {
        for (k, v) in self.m.drain() {
            ctx.obs(&k, v);
        }
    }
}

// ---------------------------------------------------------------------------
// kinds and programs
// ---------------------------------------------------------------------------

#[derive(Clone, Copy, Debug, PartialEq, Eq)]
enum Kind {
    /// install manifest; v = 2: the built manifest is given the V2 header and per-entry file-type bytes before it is serialised
    Install { v: u8 },
    Download { v: u8, checksums: bool, flag_size: u8, base: i8 },
    Size { v: u8, ekey_size: u8, esize_bytes: u8 },
}

impl Kind {
    fn label(&self) -> String {
        match self {
            Kind::Install { v: 1 } => "install".into(),
            Kind::Install { v } => format!("install-v{v}"),
            Kind::Download { v, .. } => format!("download-v{v}"),
            Kind::Size { v, .. } => format!("size-v{v}"),
        }
    }
    /// manifest family used in violation signatures (the version is in the detail)
    fn family(&self) -> &'static str {
        match self {
            Kind::Install { .. } => "install",
            Kind::Download { .. } => "download",
            Kind::Size { .. } => "size",
        }
    }
    fn json(&self) -> Value {
        match self {
            Kind::Install { v } => json!({"kind":"install","v":v}),
            Kind::Download { v, checksums, flag_size, base } => json!({"kind":"download","v":v,"checksums":checksums,"flag_size":flag_size,"base":base}),
            Kind::Size { v, ekey_size, esize_bytes } => json!({"kind":"size","v":v,"ekey_size":ekey_size,"esize_bytes":esize_bytes}),
        }
    }
    fn from_json(v: &Value) -> Option<Kind> {
        let g = |k: &str| v.get(k).and_then(Value::as_i64);
        Some(match v.get("kind")?.as_str()? {
            "install" => Kind::Install { v: g("v").unwrap_or(1) as u8 },
            "download" => Kind::Download { v: g("v")? as u8, checksums: v.get("checksums")?.as_bool()?, flag_size: g("flag_size")? as u8, base: g("base")? as i8 },
            "size" => Kind::Size { v: g("v")? as u8, ekey_size: g("ekey_size")? as u8, esize_bytes: g("esize_bytes")? as u8 },
            _ => return None,
        })
    }
}

#[derive(Clone, Debug)]
enum Step {
    AddTag { name: String, ttype: u16 },
    /// `id` = identity of the file in the model, `key` = number its key bytes are derived from (`key16`). A program
    /// may list one key several times (the same content at several paths / priorities): then `key` != `id`.
    AddFile { id: u32, key: u32, size: u64, prio: i8 },
    /// file position, tag position, API variant
    Assoc { f: usize, t: usize, via: u8 },
    Dissoc { f: usize, t: usize },
    RemoveFile { f: usize, via: u8 },
    RemoveTag { t: usize },
    /// download only: update size / priority of a file in place
    Update { f: usize, size: u64, prio: i8 },
    /// steps the builder is expected to refuse (position out of range, unknown tag)
    BadAssoc { f: usize, name: String },
    BadRemoveFile { f: usize },
    BadRemoveTag { name: String },
    /// add a file and tag it in the same call (install: add_file_with_tags; download: add_file_with_properties)
    AddFileTagged { id: u32, key: u32, size: u64, prio: i8, tags: Vec<usize> },
    /// download only: the file at position f gets another encoding key (a fresh one or one that another file carries),
    /// tag membership stays
    Rekey { f: usize, key: u32 },
    /// builder.clear(): no files, no tags
    Clear,
    /// build -> serialise -> parse -> Builder::from_manifest: the program continues on the rebuilt builder
    Reload,
}

impl Step {
    fn json(&self) -> Value {
        match self {
            Step::AddTag { name, ttype } => json!(["tag", name, ttype]),
            Step::AddFile { id, key, size, prio } if key == id => json!(["file", id, size.to_string(), prio]),
            Step::AddFile { id, key, size, prio } => json!(["file", id, size.to_string(), prio, key]),
            Step::Assoc { f, t, via } => json!(["assoc", f, t, via]),
            Step::Dissoc { f, t } => json!(["dissoc", f, t]),
            Step::RemoveFile { f, via } => json!(["rmfile", f, via]),
            Step::RemoveTag { t } => json!(["rmtag", t]),
            Step::Update { f, size, prio } => json!(["update", f, size.to_string(), prio]),
            Step::BadAssoc { f, name } => json!(["bad-assoc", f, name]),
            Step::BadRemoveFile { f } => json!(["bad-rmfile", f]),
            Step::BadRemoveTag { name } => json!(["bad-rmtag", name]),
            Step::AddFileTagged { id, key, size, prio, tags } if key == id => json!(["file+tags", id, size.to_string(), prio, tags]),
            Step::AddFileTagged { id, key, size, prio, tags } => json!(["file+tags", id, size.to_string(), prio, tags, key]),
            Step::Rekey { f, key } => json!(["rekey", f, key]),
            Step::Clear => json!(["clear"]),
            Step::Reload => json!(["reload"]),
        }
    }
    fn from_json(v: &Value) -> Option<Step> {
        let a = v.as_array()?;
        let s = |i: usize| a.get(i).and_then(Value::as_str).map(str::to_string);
        let u = |i: usize| a.get(i).and_then(Value::as_u64);
        let big = |i: usize| a.get(i).and_then(Value::as_str).and_then(|x| x.parse::<u64>().ok());
        let p = |i: usize| a.get(i).and_then(Value::as_i64).map(|x| x as i8);
        Some(match a.first()?.as_str()? {
            "tag" => Step::AddTag { name: s(1)?, ttype: u(2)? as u16 },
            "file" => Step::AddFile { id: u(1)? as u32, key: u(4).unwrap_or(u(1)?) as u32, size: big(2)?, prio: p(3)? },
            "assoc" => Step::Assoc { f: u(1)? as usize, t: u(2)? as usize, via: u(3)? as u8 },
            "dissoc" => Step::Dissoc { f: u(1)? as usize, t: u(2)? as usize },
            "rmfile" => Step::RemoveFile { f: u(1)? as usize, via: u(2)? as u8 },
            "rmtag" => Step::RemoveTag { t: u(1)? as usize },
            "update" => Step::Update { f: u(1)? as usize, size: big(2)?, prio: p(3)? },
            "bad-assoc" => Step::BadAssoc { f: u(1)? as usize, name: s(2)? },
            "bad-rmfile" => Step::BadRemoveFile { f: u(1)? as usize },
            "bad-rmtag" => Step::BadRemoveTag { name: s(1)? },
            "file+tags" => Step::AddFileTagged { id: u(1)? as u32, key: u(5).unwrap_or(u(1)?) as u32, size: big(2)?, prio: p(3)?, tags: a.get(4)?.as_array()?.iter().filter_map(|x| x.as_u64().map(|x| x as usize)).collect() },
            "rekey" => Step::Rekey { f: u(1)? as usize, key: u(2)? as u32 },
            "clear" => Step::Clear,
            "reload" => Step::Reload,
            _ => return None,
        })
    }
}

// ---------------------------------------------------------------------------
// set model
// ---------------------------------------------------------------------------

#[derive(Clone, Debug)]
struct MFile {
    /// identity (tag membership is a set of these)
    id: u32,
    /// key bytes = key16(key); several files may carry one key
    key: u32,
    size: u64,
    prio: i8,
}
#[derive(Clone, Debug)]
struct MTag {
    name: String,
    ttype: u16,
    files: BTreeSet<u32>,
}
#[derive(Clone, Debug, Default)]
struct Model {
    files: Vec<MFile>,
    tags: Vec<MTag>,
    /// the builder has a remove-by-key entry point (download): `RemoveFile { via: 1 }` names a key, not a position
    by_key: bool,
}

fn key16(id: u32) -> [u8; 16] {
    let a = mix64(0x1234_5678_9abc_def0, u64::from(id));
    let b = mix64(a, 0x0f0f);
    let mut k = [0u8; 16];
    k[..8].copy_from_slice(&a.to_be_bytes());
    k[8..].copy_from_slice(&b.to_be_bytes());
    k
}
fn path_of(id: u32) -> String {
    match id % 3 {
        0 => format!("Data\\f{id:x}.bin"),
        1 => format!("i/{id}.blp"),
        _ => format!("ü{id}.txt"),
    }
}
fn ttype_of(v: u16) -> TagType {
    TagType::from_u16(v).unwrap_or(TagType::Unknown)
}

impl Model {
    fn apply(&mut self, s: &Step) {
        match s {
            Step::AddTag { name, ttype } => self.tags.push(MTag { name: name.clone(), ttype: *ttype, files: BTreeSet::new() }),
            Step::AddFile { id, key, size, prio } => self.files.push(MFile { id: *id, key: *key, size: *size, prio: *prio }),
            Step::Assoc { f, t, .. } => {
                let id = self.files[*f].id;
                self.tags[*t].files.insert(id);
            }
            Step::Dissoc { f, t } => {
                let id = self.files[*f].id;
                self.tags[*t].files.remove(&id);
            }
            Step::RemoveFile { f, via } => {
                // removal by key names the key of the file at f. When several files carry it, which of them goes is
                // left open; the prediction used for generating the rest of the program is the entry listed first
                // (run_program adopts what the builder really did, see `by_key_removal_outcome`)
                let pos = if self.by_key && *via == 1 { self.carriers(self.files[*f].key).first().copied().unwrap_or(*f) } else { *f };
                self.remove_positions(&[pos]);
            }
            Step::RemoveTag { t } => {
                self.tags.remove(*t);
            }
            Step::Update { f, size, prio } => {
                self.files[*f].size = *size;
                self.files[*f].prio = *prio;
            }
            Step::BadAssoc { .. } | Step::BadRemoveFile { .. } | Step::BadRemoveTag { .. } | Step::Reload => {}
            Step::AddFileTagged { id, key, size, prio, tags } => {
                self.files.push(MFile { id: *id, key: *key, size: *size, prio: *prio });
                for t in tags {
                    self.tags[*t].files.insert(*id);
                }
            }
            Step::Rekey { f, key } => self.files[*f].key = *key,
            Step::Clear => {
                self.files.clear();
                self.tags.clear();
            }
        }
    }
    /// positions of the files that carry this key, ascending
    fn carriers(&self, key: u32) -> Vec<usize> {
        (0..self.files.len()).filter(|&i| self.files[i].key == key).collect()
    }
    /// the files at these positions (ascending) leave the manifest; later files move down
    fn remove_positions(&mut self, pos: &[usize]) {
        for &p in pos.iter().rev() {
            let id = self.files.remove(p).id;
            for t in &mut self.tags {
                t.files.remove(&id);
            }
        }
    }
    /// membership[t][i] = file at position i carries tag t
    fn membership(&self) -> Vec<Vec<bool>> {
        self.tags.iter().map(|t| self.files.iter().map(|f| t.files.contains(&f.id)).collect()).collect()
    }
}

// ---------------------------------------------------------------------------
// program generator
// ---------------------------------------------------------------------------

fn gen_size(rng: &mut Rng, kind: Kind) -> u64 {
    match kind {
        Kind::Install { .. } => match rng.below(6) {
            0 => 0,
            1 => 1,
            2 => u64::from(u32::MAX),
            3 => u64::from(rng.next_u32() % 4096),
            _ => u64::from(rng.next_u32()),
        },
        Kind::Download { .. } => match rng.below(9) {
            0 => 0,
            1 => 1,
            2 => u64::from(u32::MAX),
            3 => u64::from(u32::MAX) + 1,
            4 => MAX40,
            5 => MAX40 - 1,
            6 => u64::from(rng.next_u32() % 100_000),
            _ => rng.range(0, MAX40),
        },
        Kind::Size { v, esize_bytes, .. } => {
            let width = if v == 2 { 4 } else { u32::from(esize_bytes) };
            let max = if width >= 8 { u64::MAX >> 16 } else { (1u64 << (8 * width)) - 1 };
            // keep the grand total well inside 40 bits (V2 header) / u64 (V1)
            let max = max.min(MAX40 / 4096);
            match rng.below(5) {
                0 => 0,
                1 => 1,
                2 => max,
                _ => rng.range(0, max),
            }
        }
    }
}

fn gen_prio(rng: &mut Rng) -> i8 {
    match rng.below(12) {
        0 => i8::MIN,
        1 => i8::MAX,
        2 => -1,
        3 => 0,
        4 => 1,
        5 => 2,
        6 => 3,
        7 => 5,
        8 => 6,
        _ => rng.next_u32() as u8 as i8,
    }
}

struct Gen<'a> {
    rng: &'a mut Rng,
    kind: Kind,
    model: Model,
    steps: Vec<Step>,
    next_id: u32,
    next_name: u32,
    nice: Vec<&'static str>,
    reloads: u32,
    /// 0: every file has its own key; k: one add in k repeats a listed key, a re-key may take another file's key
    repeat_keys: u64,
}

impl Gen<'_> {
    fn push(&mut self, s: Step) {
        self.model.apply(&s);
        self.steps.push(s);
    }
    fn new_name(&mut self) -> String {
        if !self.nice.is_empty() && self.rng.chance(1, 3) {
            let i = self.rng.usize_below(self.nice.len());
            return self.nice.swap_remove(i).to_string();
        }
        self.next_name += 1;
        format!("t{}", self.next_name)
    }
    fn add_tag(&mut self) {
        let name = self.new_name();
        let ttype = match name.as_str() {
            "Windows" | "OSX" => TagType::Platform,
            "x86_64" | "arm64" => TagType::Architecture,
            _ => *self.rng.pick(&TAG_TYPES),
        } as u16;
        self.push(Step::AddTag { name, ttype });
    }
    /// Key of a new file: its own, or (in programs that repeat keys: one add in `repeat_keys`) the key of a file that is
    /// already listed — the same content at a second path (install), the same encoded file at another priority
    /// (download), a repeated key (size).
    fn new_key(&mut self) -> u32 {
        let nf = self.model.files.len();
        if nf > 0 && self.repeat_keys > 0 && self.rng.chance(1, self.repeat_keys) {
            let i = if self.rng.bool() { self.rng.usize_below(nf) } else { nf - 1 - self.rng.usize_below(nf.min(3)) };
            self.model.files[i].key
        } else {
            self.next_id
        }
    }
    fn add_file(&mut self) {
        self.next_id += 1;
        let key = self.new_key();
        let size = gen_size(self.rng, self.kind);
        let prio = gen_prio(self.rng);
        self.push(Step::AddFile { id: self.next_id, key, size, prio });
    }
    /// position of a file whose key is listed more than once, if there is one
    fn file_with_repeated_key(&mut self) -> Option<usize> {
        let mut seen: HashMap<u32, u32> = HashMap::new();
        for f in &self.model.files {
            *seen.entry(f.key).or_insert(0) += 1;
        }
        let c: Vec<usize> = (0..self.model.files.len()).filter(|&i| seen[&self.model.files[i].key] > 1).collect();
        if c.is_empty() { None } else { Some(c[self.rng.usize_below(c.len())]) }
    }
    fn random_step(&mut self, removal_ok: bool) {
        let nf = self.model.files.len();
        let nt = self.model.tags.len();
        let is_size = matches!(self.kind, Kind::Size { .. });
        // coverage-driven extension: reload through Builder::from_manifest, add-with-tags, re-keying
        if !is_size && self.reloads < 2 && self.rng.chance(1, 60) {
            self.reloads += 1;
            self.push(Step::Reload);
            return;
        }
        let r = self.rng.below(100);
        match r {
            0..=11 => self.add_tag(),
            12..=33 => self.add_file(),
            34..=36 if nt > 0 && !is_size => {
                self.next_id += 1;
                let key = self.new_key();
                let size = gen_size(self.rng, self.kind);
                let prio = gen_prio(self.rng);
                let k = self.rng.urange(0, nt.min(3));
                let mut tags: Vec<usize> = (0..nt).collect();
                self.rng.shuffle(&mut tags);
                tags.truncate(k);
                // a tag list denotes a set of tags: one list in six names one of its tags a second time
                if k > 0 && self.rng.chance(1, 6) {
                    let again = tags[self.rng.usize_below(k)];
                    tags.insert(self.rng.urange(0, k), again);
                }
                self.push(Step::AddFileTagged { id: self.next_id, key, size, prio, tags });
            }
            91 if nf > 0 && matches!(self.kind, Kind::Download { .. }) => {
                let f = if self.rng.chance(1, 3) { nf - 1 } else { self.rng.usize_below(nf) };
                self.next_id += 1;
                // a fresh key, or the key of another file
                let key = if nf > 1 && self.repeat_keys > 0 && self.rng.chance(1, 4) { self.model.files[(f + 1 + self.rng.usize_below(nf - 1)) % nf].key } else { self.next_id };
                self.push(Step::Rekey { f, key });
            }
            37..=66 if nf > 0 && nt > 0 => {
                let f = if self.rng.chance(1, 4) { nf - 1 } else { self.rng.usize_below(nf) };
                let t = self.rng.usize_below(nt);
                let via = self.rng.below(4) as u8;
                self.push(Step::Assoc { f, t, via });
            }
            67..=74 if nf > 0 && nt > 0 && !is_size => {
                let f = self.rng.usize_below(nf);
                let t = self.rng.usize_below(nt);
                self.push(Step::Dissoc { f, t });
            }
            75..=84 if nf > 0 && removal_ok && !is_size => {
                let f = match self.rng.below(4) {
                    0 => 0,
                    1 => nf - 1,
                    _ => self.rng.usize_below(nf),
                };
                let via = self.rng.below(2) as u8;
                // removal by key (download) is aimed at a key that several files carry in half of the cases where one exists
                let repeated = if self.model.by_key && self.rng.bool() { self.file_with_repeated_key() } else { None };
                match repeated {
                    Some(f) => self.push(Step::RemoveFile { f, via: 1 }),
                    None => self.push(Step::RemoveFile { f, via }),
                }
            }
            85..=88 if nt > 0 && removal_ok && !is_size => {
                let t = self.rng.usize_below(nt);
                self.push(Step::RemoveTag { t });
            }
            89..=90 if nf > 0 && matches!(self.kind, Kind::Download { .. }) => {
                let f = self.rng.usize_below(nf);
                let size = gen_size(self.rng, self.kind);
                let prio = gen_prio(self.rng);
                self.push(Step::Update { f, size, prio });
            }
            92..=94 if !is_size => {
                let in_range = nf > 0 && self.rng.bool();
                let f = if in_range { self.rng.usize_below(nf) } else { nf + self.rng.usize_below(3) };
                let existing = nt > 0 && self.rng.bool();
                let name = if existing { self.model.tags[self.rng.usize_below(nt)].name.clone() } else { "no-such-tag".to_string() };
                // in range + existing tag would be a valid step: force an error cause
                let name = if f < nf { "no-such-tag".to_string() } else { name };
                self.push(Step::BadAssoc { f, name });
            }
            95..=96 if !is_size => {
                let f = nf + self.rng.usize_below(9);
                self.push(Step::BadRemoveFile { f });
            }
            97 if !is_size => self.push(Step::BadRemoveTag { name: "no-such-tag".into() }),
            _ => self.add_file(),
        }
    }
}

struct Program {
    kind: Kind,
    steps: Vec<Step>,
    model: Model,
    last_file_touched: bool,
}

/// `n` = exact final file count, `t` = exact final tag count.
fn gen_program(rng: &mut Rng, kind: Kind, n: usize, t: usize) -> Program {
    let mut g = Gen { rng, kind, model: Model { by_key: matches!(kind, Kind::Download { .. }), ..Model::default() }, steps: Vec::new(), next_id: 0, next_name: 0, nice: NICE_NAMES.to_vec(), reloads: 0, repeat_keys: 0 };
    g.repeat_keys = *g.rng.pick(&[0u64, 0, 0, 4, 10, 25]);
    let is_size = matches!(kind, Kind::Size { .. });
    let body = g.rng.urange(5, 120);
    let removal_ok = g.rng.chance(3, 4);
    // a few programs drop everything once, somewhere in their first half, and go on from the empty builder
    let clear_at = if !is_size && removal_ok && g.rng.chance(1, 16) { Some(g.rng.urange(1, body / 2 + 1)) } else { None };
    for bi in 0..body {
        if clear_at == Some(bi) {
            g.push(Step::Clear);
            continue;
        }
        // size manifests have no removal: do not overshoot the targets
        if is_size && (g.model.files.len() >= n || g.model.tags.len() >= t) {
            let nf = g.model.files.len();
            let nt = g.model.tags.len();
            if nf < n && g.rng.bool() {
                g.add_file();
            } else if nt < t && g.rng.bool() {
                g.add_tag();
            } else if nf > 0 && nt > 0 {
                let f = g.rng.usize_below(nf);
                let tt = g.rng.usize_below(nt);
                g.push(Step::Assoc { f, t: tt, via: 0 });
            }
            continue;
        }
        g.random_step(removal_ok);
    }
    // fix-up: reach the exact counts (these are ordinary builder steps too)
    while g.model.tags.len() > t {
        let i = g.rng.usize_below(g.model.tags.len());
        g.push(Step::RemoveTag { t: i });
    }
    while g.model.tags.len() < t {
        g.add_tag();
    }
    while g.model.files.len() > n {
        let nf = g.model.files.len();
        let f = match g.rng.below(3) {
            0 => nf - 1,
            1 => 0,
            _ => g.rng.usize_below(nf),
        };
        let via = g.rng.below(2) as u8;
        g.push(Step::RemoveFile { f, via });
    }
    while g.model.files.len() < n {
        g.add_file();
        // associate while growing so that masks are extended with live bits in them
        let nt = g.model.tags.len();
        if nt > 0 && g.rng.chance(1, 3) {
            let f = g.model.files.len() - 1;
            let tt = g.rng.usize_below(nt);
            let via = if is_size { 0 } else { g.rng.below(4) as u8 };
            g.push(Step::Assoc { f, t: tt, via });
        }
    }
    // pattern touching the last file
    let mut touched = false;
    if n > 0 && t > 0 {
        let last = n - 1;
        let nt = g.model.tags.len();
        let t0 = g.rng.usize_below(nt);
        g.push(Step::Assoc { f: last, t: t0, via: 0 });
        touched = true;
        if nt > 1 {
            // a second tag: every other file plus the last one
            let t1 = (t0 + 1) % nt;
            let stride = g.rng.urange(2, 3);
            let mut f = g.rng.usize_below(stride);
            while f < n && n <= 400 {
                g.push(Step::Assoc { f, t: t1, via: 0 });
                f += stride;
            }
            g.push(Step::Assoc { f: last, t: t1, via: 0 });
        }
        if nt > 2 && n >= 2 && !is_size {
            // a third tag: last file set and cleared again, second-to-last stays
            let t2 = (t0 + 2) % nt;
            g.push(Step::Assoc { f: last, t: t2, via: 0 });
            g.push(Step::Assoc { f: last - 1, t: t2, via: 0 });
            g.push(Step::Dissoc { f: last, t: t2 });
        }
    }
    Program { kind, steps: g.steps, model: g.model, last_file_touched: touched }
}

// ---------------------------------------------------------------------------
// independent reader of the serialised bytes
// ---------------------------------------------------------------------------

struct Cur<'a> {
    b: &'a [u8],
    p: usize,
}
impl<'a> Cur<'a> {
    fn take(&mut self, n: usize) -> Result<&'a [u8], String> {
        if self.p + n > self.b.len() {
            return Err(format!("truncated at {} (+{n}) of {}", self.p, self.b.len()));
        }
        let s = &self.b[self.p..self.p + n];
        self.p += n;
        Ok(s)
    }
    fn u8(&mut self) -> Result<u8, String> {
        Ok(self.take(1)?[0])
    }
    fn be(&mut self, n: usize) -> Result<u64, String> {
        Ok(self.take(n)?.iter().fold(0u64, |a, &b| (a << 8) | u64::from(b)))
    }
    fn cstr(&mut self) -> Result<String, String> {
        let start = self.p;
        while self.p < self.b.len() && self.b[self.p] != 0 {
            self.p += 1;
        }
        if self.p >= self.b.len() {
            return Err("unterminated string".into());
        }
        let s = String::from_utf8(self.b[start..self.p].to_vec()).map_err(|e| e.to_string())?;
        self.p += 1;
        Ok(s)
    }
}

#[derive(Debug, Default)]
struct Decoded {
    n: usize,
    tags: Vec<(String, u16, Vec<u8>)>,
    keys: Vec<Vec<u8>>,
    sizes: Vec<u64>,
    prios: Vec<i8>,
    header_total: Option<u64>,
    base: i8,
}

fn read_tags(c: &mut Cur, count: usize, n: usize) -> Result<Vec<(String, u16, Vec<u8>)>, String> {
    let mlen = n.div_ceil(8);
    let mut v = Vec::with_capacity(count);
    for _ in 0..count {
        let name = c.cstr()?;
        let ty = c.be(2)? as u16;
        let mask = c.take(mlen)?.to_vec();
        v.push((name, ty, mask));
    }
    Ok(v)
}

fn decode(kind: Kind, b: &[u8]) -> Result<Decoded, String> {
    let mut c = Cur { b, p: 0 };
    let mut d = Decoded::default();
    match kind {
        Kind::Install { .. } => {
            if c.take(2)? != b"IN" {
                return Err("magic".into());
            }
            let ver = c.u8()?;
            let klen = c.u8()? as usize;
            let ntags = c.be(2)? as usize;
            d.n = c.be(4)? as usize;
            if ver >= 2 {
                c.take(6)?;
            }
            d.tags = read_tags(&mut c, ntags, d.n)?;
            for _ in 0..d.n {
                let _path = c.cstr()?;
                d.keys.push(c.take(klen)?.to_vec());
                d.sizes.push(c.be(4)?);
                if ver >= 2 {
                    c.u8()?;
                }
            }
        }
        Kind::Download { .. } => {
            if c.take(2)? != b"DL" {
                return Err("magic".into());
            }
            let ver = c.u8()?;
            let klen = c.u8()? as usize;
            let has_cs = c.u8()? != 0;
            d.n = c.be(4)? as usize;
            let ntags = c.be(2)? as usize;
            let mut flag = 0usize;
            if ver >= 2 {
                flag = c.u8()? as usize;
            }
            if ver >= 3 {
                d.base = c.u8()? as i8;
                c.take(3)?;
            }
            for _ in 0..d.n {
                d.keys.push(c.take(klen)?.to_vec());
                d.sizes.push(c.be(5)?);
                d.prios.push(c.u8()? as i8);
                if has_cs {
                    c.take(4)?;
                }
                c.take(flag)?;
            }
            d.tags = read_tags(&mut c, ntags, d.n)?;
        }
        Kind::Size { .. } => {
            if c.take(2)? != b"DS" {
                return Err("magic".into());
            }
            let ver = c.u8()?;
            let klen = c.u8()? as usize;
            d.n = c.be(4)? as usize;
            let ntags = c.be(2)? as usize;
            let w = if ver == 1 {
                d.header_total = Some(c.be(8)?);
                c.u8()? as usize
            } else {
                d.header_total = Some(c.be(5)?);
                4
            };
            d.tags = read_tags(&mut c, ntags, d.n)?;
            for _ in 0..d.n {
                d.keys.push(c.take(klen)?.to_vec());
                d.sizes.push(c.be(w)?);
            }
        }
    }
    if c.p != b.len() {
        return Err(format!("{} trailing bytes", b.len() - c.p));
    }
    Ok(d)
}

fn mask_files(mask: &[u8], n: usize) -> Vec<usize> {
    (0..n).filter(|i| mask.get(i / 8).is_some_and(|b| b & (0x80u8 >> (i % 8)) != 0)).collect()
}

// ---------------------------------------------------------------------------
// running one program
// ---------------------------------------------------------------------------

type StageErr = (&'static str, String, String);

fn reload_install(x: InstallManifestBuilder, kind: Kind, v2_applied: &mut bool) -> Result<InstallManifestBuilder, StageErr> {
    let mut m = x.build().map_err(|e| ("builder.build-refused-accepted-program", err_class(&e), e.to_string()))?;
    if matches!(kind, Kind::Install { v: 2 }) && !*v2_applied {
        to_install_v2(&mut m);
        *v2_applied = true;
    }
    let bytes = m.build().map_err(|e| ("serialise-failed", err_class(&e), e.to_string()))?;
    let p = InstallManifest::parse(&bytes).map_err(|e| ("parse-of-own-output-failed", err_class(&e), e.to_string()))?;
    Ok(InstallManifestBuilder::from_manifest(&p))
}

fn reload_download(x: DownloadManifestBuilder) -> Result<DownloadManifestBuilder, StageErr> {
    let m = x.build().map_err(|e| ("builder.build-refused-accepted-program", err_class(&e), e.to_string()))?;
    let bytes = m.build().map_err(|e| ("serialise-failed", err_class(&e), e.to_string()))?;
    let p = DownloadManifest::parse(&bytes).map_err(|e| ("parse-of-own-output-failed", err_class(&e), e.to_string()))?;
    Ok(DownloadManifestBuilder::from_manifest(&p))
}

/// Give a builder-made (V1) install manifest the V2 layout: 16-byte header with the extra fields and a file-type
/// byte in every entry. Tags and their masks are untouched.
fn to_install_v2(m: &mut InstallManifest) {
    m.header = InstallHeader::new_v2(m.header.tag_count, m.header.entry_count, 20, m.header.entry_count);
    for (i, e) in m.entries.iter_mut().enumerate() {
        *e = InstallFileEntry::new_v2(e.path.clone(), e.content_key, e.file_size, (i % 251) as u8);
    }
}

struct RunCtx<'a> {
    ctx: &'a Ctx,
    cnt: &'a mut Cnt,
    log: Option<&'a mut std::io::BufWriter<std::fs::File>>,
    log_lines: &'a mut u64,
}

fn removal_class(steps: &[Step]) -> &'static str {
    if steps.iter().any(|s| matches!(s, Step::RemoveFile { .. } | Step::Clear)) {
        "program-with-remove_file"
    } else if steps.iter().any(|s| matches!(s, Step::RemoveTag { .. })) {
        "program-with-remove_tag"
    } else {
        "program-without-removal"
    }
}

fn err_class(e: &dyn std::fmt::Debug) -> String {
    let s = format!("{e:?}");
    s.split(['(', '{', ' ']).next().unwrap_or("error").to_string()
}

/// One row per file position: key, size, priority, names of the tags that select the file (in tag order).
type Row = ([u8; 16], u64, i8, Vec<String>);

fn model_rows(model: &Model) -> Vec<Row> {
    model.files.iter().map(|f| (key16(f.key), f.size, f.prio, model.tags.iter().filter(|t| t.files.contains(&f.id)).map(|t| t.name.clone()).collect())).collect()
}

fn builder_rows(x: &DownloadManifestBuilder) -> Vec<Row> {
    (0..x.entry_count()).filter_map(|i| x.get_file(i).map(|e| (*e.encoding_key.as_bytes(), e.file_size.as_u64(), e.priority, x.get_tags_for_file(i).into_iter().map(str::to_string).collect()))).collect()
}

/// `remove_file_by_key` for a key that several files carry (positions `carriers` in `before`). Which of them leave is
/// not fixed by the statement: one of them (the one found first, or another) or all of them. Every file with another
/// key stays where it was relative to the others, with its size, priority and tags. Returns the positions that left,
/// or None when what the builder holds afterwards is none of these outcomes.
fn by_key_removal_outcome(before: &[Row], after: &[Row], carriers: &[usize]) -> Option<Vec<usize>> {
    let mut candidates: Vec<Vec<usize>> = carriers.iter().map(|&c| vec![c]).collect();
    candidates.push(carriers.to_vec());
    candidates.into_iter().find(|gone| before.len() - gone.len() == after.len() && before.iter().enumerate().filter(|(i, _)| !gone.contains(i)).map(|(_, r)| r).eq(after.iter()))
}

#[allow(clippy::too_many_arguments)]
fn by_key_violation(ctx: &Ctx, fam: &str, rclass: &str, program: Value, at_step: usize, before: &[Row], after: &[Row], carriers: &[usize]) {
    let show = |rows: &[Row]| -> Vec<Value> { rows.iter().take(80).map(|r| json!([hex::encode(&r.0[..4]), r.1.to_string(), r.2, r.3])).collect() };
    ctx.violation(
        &format!("C19|{fam}|remove_file_by_key(key-listed-more-than-once)|files-left-are-not-the-set-model-minus-one-or-all-entries-of-the-key|{rclass}"),
        "after removing by a key that several files carry, the builder's files (key, size, priority, tags per position) are neither the previous files minus one entry of that key nor minus all of them: a file with another key was removed, moved or re-tagged",
        json!({"program": program, "at_step": at_step, "positions_carrying_the_key": carriers, "files_before": before.len(), "files_after": after.len(), "before(key4,size,prio,tags)": show(before), "after(key4,size,prio,tags)": show(after)}),
    );
}

fn program_detail(kind: Kind, steps: &[Step]) -> Value {
    json!({"kind": kind.json(), "steps": steps.iter().map(Step::json).collect::<Vec<_>>()})
}

/// Returns serialised bytes of parse(build(program)) side, or None when the program ended early.
fn run_program(rc: &mut RunCtx, kind: Kind, steps: &[Step], rng: &mut Rng) {
    let ctx = rc.ctx;
    let label = kind.label();
    let fam = kind.family();
    let rclass = removal_class(steps);
    let mut model = Model { by_key: matches!(kind, Kind::Download { .. }), ..Model::default() };
    let detail = || program_detail(kind, steps);

    // ---- drive the real builder ------------------------------------------------
    enum B {
        I(InstallManifestBuilder),
        D(DownloadManifestBuilder),
        S(SizeManifestBuilder),
    }
    let b0 = match kind {
        Kind::Install { .. } => B::I(if steps.len() % 2 == 0 { InstallManifestBuilder::new() } else { InstallManifestBuilder::default() }),
        Kind::Download { v, checksums, flag_size, base } => {
            // alternative constructors: the presets must behave like new(v) + with_flags + with_base_priority
            let preset = steps.len() % 2 == 1;
            let r = if preset {
                rc.cnt.add("builder.download_preset_constructors", 1);
                match (v, flag_size, base) {
                    (1, _, _) => DownloadManifestBuilder::basic(),
                    (2, f, _) => DownloadManifestBuilder::with_flags_support(f),
                    (_, 0, -10) => DownloadManifestBuilder::essential_content(),
                    (_, 1, -5) => DownloadManifestBuilder::streaming_optimized(),
                    (_, f, b) => DownloadManifestBuilder::full_featured(f, b),
                }
                .map(|b| b.with_checksums(checksums))
            } else {
                DownloadManifestBuilder::new(v).map(|b| b.with_checksums(checksums)).and_then(|b| b.with_flags(flag_size)).and_then(|b| b.with_base_priority(base))
            };
            match r {
                Ok(b) => B::D(b),
                Err(e) => {
                    ctx.violation(&format!("C19|{fam}|builder-configuration-refused|{}", err_class(&e)), "a version-conformant builder configuration was refused", json!({"program": detail(), "error": e.to_string()}));
                    return;
                }
            }
        }
        Kind::Size { v, ekey_size, esize_bytes } => B::S(SizeManifestBuilder::new().version(v).ekey_size(ekey_size).esize_bytes(esize_bytes)),
    };
    let mut b: Option<B> = Some(b0);
    let mut refused_valid: Option<String> = None;
    // install V2: the V2 layout is given to the first manifest that is serialised (at a reload or at the end)
    let mut v2_applied = false;
    // removal by a key that several files carry: positions (in the model before the step) that the builder removed
    let mut resolved_removal: Option<Vec<usize>> = None;
    let mut other_outcome = false;
    for (si, s) in steps.iter().enumerate() {
        if let Step::AddFileTagged { tags, .. } = s {
            if tags.iter().collect::<BTreeSet<_>>().len() < tags.len() {
                rc.cnt.add("step.add_file_with_tags(list-names-a-tag-more-than-once)", 1);
            }
        }
        rc.cnt.add(
            match s {
                Step::AddTag { .. } => "step.add_tag",
                Step::AddFile { .. } => "step.add_file",
                Step::Assoc { .. } => "step.associate",
                Step::Dissoc { .. } => "step.dissociate",
                Step::RemoveFile { .. } => "step.remove_file",
                Step::RemoveTag { .. } => "step.remove_tag",
                Step::Update { .. } => "step.update_size_priority",
                Step::BadAssoc { .. } | Step::BadRemoveFile { .. } | Step::BadRemoveTag { .. } => "step.invalid(expected refusal)",
                Step::AddFileTagged { .. } => "step.add_file_with_tags",
                Step::Rekey { .. } => "step.update_file_key",
                Step::Clear => "step.clear",
                Step::Reload => "step.reload(from_manifest)",
            },
            1,
        );
        // names are resolved through the model (positions -> names)
        let tname = |t: usize| model.tags[t].name.clone();
        let Some(cur) = b.take() else { break };
        b = Some(match (cur, s) {
            // ---------------- install ----------------
            (B::I(x), Step::AddTag { name, ttype }) => B::I(x.add_tag(name.clone(), ttype_of(*ttype))),
            (B::I(x), Step::AddFile { id, key, size, .. }) => B::I(x.add_file(path_of(*id), ContentKey::from_bytes(key16(*key)), *size as u32)),
            (B::I(x), Step::Assoc { f, t, via }) => {
                let last = *f + 1 == model.files.len();
                let r = match via {
                    1 => x.associate_file_with_tag_by_index(*f, *t),
                    2 if last => x.associate_last_file_with_tag(&tname(*t)),
                    3 => x.associate_files_with_tag(&[*f], &tname(*t)),
                    _ => x.associate_file_with_tag(*f, &tname(*t)),
                };
                match r {
                    Ok(x) => B::I(x),
                    Err(e) => {
                        refused_valid = Some(format!("associate: {e}"));
                        break;
                    }
                }
            }
            (B::I(x), Step::Dissoc { f, t }) => match x.remove_file_from_tag(*f, &tname(*t)) {
                Ok(x) => B::I(x),
                Err(e) => {
                    refused_valid = Some(format!("remove_file_from_tag: {e}"));
                    break;
                }
            },
            (B::I(x), Step::RemoveFile { f, .. }) => match x.remove_file(*f) {
                Ok(x) => B::I(x),
                Err(e) => {
                    refused_valid = Some(format!("remove_file: {e}"));
                    break;
                }
            },
            (B::I(x), Step::RemoveTag { t }) => match x.remove_tag(&tname(*t)) {
                Ok(x) => B::I(x),
                Err(e) => {
                    refused_valid = Some(format!("remove_tag: {e}"));
                    break;
                }
            },
            (B::I(x), Step::BadAssoc { f, name }) => {
                let snap = x.snapshot();
                // a position past the last file must be refused by every association entry point
                let r = if *f >= model.files.len() {
                    match f % 4 {
                        0 => x.associate_file_with_tag_by_index(*f, 0),
                        1 => x.remove_file_from_tag(*f, name),
                        2 if model.files.is_empty() => x.associate_last_file_with_tag(name),
                        _ => x.associate_file_with_tag(*f, name),
                    }
                } else {
                    x.associate_file_with_tag(*f, name)
                };
                match r {
                    Ok(_) => {
                        rc.cnt.add("builder.accepted_an_invalid_step(observation)", 1);
                        return;
                    }
                    Err(_) => {
                        rc.cnt.add("builder.refusals_of_invalid_steps", 1);
                        B::I(snap)
                    }
                }
            }
            (B::I(x), Step::BadRemoveFile { f }) => {
                let snap = x.snapshot();
                match x.remove_file(*f) {
                    Ok(_) => {
                        rc.cnt.add("builder.accepted_an_invalid_step(observation)", 1);
                        return;
                    }
                    Err(_) => {
                        rc.cnt.add("builder.refusals_of_invalid_steps", 1);
                        B::I(snap)
                    }
                }
            }
            (B::I(x), Step::BadRemoveTag { name }) => {
                let snap = x.snapshot();
                match x.remove_tag(name) {
                    Ok(_) => {
                        rc.cnt.add("builder.accepted_an_invalid_step(observation)", 1);
                        return;
                    }
                    Err(_) => {
                        rc.cnt.add("builder.refusals_of_invalid_steps", 1);
                        B::I(snap)
                    }
                }
            }
            (B::I(x), Step::Update { .. }) => B::I(x),
            // ---------------- download ----------------
            (B::D(x), Step::AddTag { name, ttype }) => B::D(x.add_tag(name.clone(), ttype_of(*ttype))),
            (B::D(x), Step::AddFile { id, key, size, prio }) => {
                let idx = model.files.len();
                let Kind::Download { checksums, flag_size, .. } = kind else { unreachable!() };
                let mut r = x.add_file(EncodingKey::from_bytes(key16(*key)), *size, *prio);
                if id % 3 == 0 {
                    // the combined setter must do what the two single setters do
                    let flags = (flag_size > 0 && id % 2 == 0).then(|| vec![*id as u8; flag_size as usize]);
                    r = r.and_then(|x| x.configure_file(idx, checksums.then_some(*id ^ 0xa5a5_a5a5), flags));
                } else {
                    if checksums {
                        r = r.and_then(|x| x.set_file_checksum(idx, *id ^ 0xa5a5_a5a5));
                    }
                    if flag_size > 0 && id % 2 == 0 {
                        r = r.and_then(|x| x.set_file_flags(idx, vec![*id as u8; flag_size as usize]));
                    }
                }
                match r {
                    Ok(x) => B::D(x),
                    Err(e) => {
                        refused_valid = Some(format!("add_file: {e}"));
                        break;
                    }
                }
            }
            (B::D(x), Step::Assoc { f, t, via }) => {
                let r = if *via == 1 { x.associate_file_with_tags(*f, &[tname(*t).as_str()]) } else { x.associate_file_with_tag(*f, &tname(*t)) };
                match r {
                    Ok(x) => B::D(x),
                    Err(e) => {
                        refused_valid = Some(format!("associate: {e}"));
                        break;
                    }
                }
            }
            (B::D(x), Step::Dissoc { f, t }) => match x.disassociate_file_from_tag(*f, &tname(*t)) {
                Ok(x) => B::D(x),
                Err(e) => {
                    refused_valid = Some(format!("disassociate: {e}"));
                    break;
                }
            },
            (B::D(mut x), Step::RemoveFile { f, via }) => {
                let key = model.files[*f].key;
                let carriers = if *via == 1 { model.carriers(key) } else { Vec::new() };
                let ok = if *via == 1 { x.remove_file_by_key(&EncodingKey::from_bytes(key16(key))) } else { x.remove_file(*f) };
                if !ok {
                    refused_valid = Some("remove_file returned false".into());
                    break;
                }
                if carriers.len() > 1 {
                    // the key is listed more than once: adopt the builder's (defensible) choice of what goes
                    rc.cnt.add("step.remove_file_by_key(key-listed-more-than-once)", 1);
                    let before = model_rows(&model);
                    let after = builder_rows(&x);
                    match by_key_removal_outcome(&before, &after, &carriers) {
                        Some(gone) => {
                            rc.cnt.add(if gone.len() == carriers.len() { "by_key_removal.outcome=all-entries-of-the-key" } else if gone[0] == carriers[0] { "by_key_removal.outcome=first-entry-of-the-key" } else { "by_key_removal.outcome=another-single-entry-of-the-key" }, 1);
                            other_outcome = gone != carriers[..1];
                            resolved_removal = Some(gone);
                        }
                        None => {
                            by_key_violation(ctx, fam, rclass, detail(), si, &before, &after, &carriers);
                            return;
                        }
                    }
                }
                B::D(x)
            }
            (B::D(mut x), Step::RemoveTag { t }) => {
                if !x.remove_tag(&tname(*t)) {
                    refused_valid = Some("remove_tag returned false".into());
                    break;
                }
                B::D(x)
            }
            (B::D(mut x), Step::Update { f, size, prio }) => {
                let prio_ok = if prio % 2 == 0 {
                    // in-place edit through the mutable accessor
                    x.get_file_mut(*f).map(|e| e.priority = *prio).is_some()
                } else {
                    x.update_file_priority(*f, *prio)
                };
                if x.update_file_size(*f, *size).is_err() || !prio_ok {
                    refused_valid = Some("update refused".into());
                    break;
                }
                B::D(x)
            }
            (B::D(x), Step::BadAssoc { f, name }) => {
                let snap = x.clone_builder();
                match x.associate_file_with_tag(*f, name) {
                    Ok(_) => {
                        rc.cnt.add("builder.accepted_an_invalid_step(observation)", 1);
                        return;
                    }
                    Err(_) => {
                        rc.cnt.add("builder.refusals_of_invalid_steps", 1);
                        B::D(snap)
                    }
                }
            }
            (B::D(mut x), Step::BadRemoveFile { f }) => {
                if x.remove_file(*f) {
                    rc.cnt.add("builder.accepted_an_invalid_step(observation)", 1);
                    return;
                }
                rc.cnt.add("builder.refusals_of_invalid_steps", 1);
                B::D(x)
            }
            (B::D(mut x), Step::BadRemoveTag { name }) => {
                if x.remove_tag(name) {
                    rc.cnt.add("builder.accepted_an_invalid_step(observation)", 1);
                    return;
                }
                rc.cnt.add("builder.refusals_of_invalid_steps", 1);
                B::D(x)
            }
            // ---------------- coverage-driven extension: tagged add, re-key, clear, reload ----------------
            (B::I(x), Step::AddFileTagged { id, key, size, tags, .. }) => {
                let names: Vec<String> = tags.iter().map(|t| tname(*t)).collect();
                let refs: Vec<&str> = names.iter().map(String::as_str).collect();
                match x.add_file_with_tags(path_of(*id), ContentKey::from_bytes(key16(*key)), *size as u32, &refs) {
                    Ok(x) => B::I(x),
                    Err(e) => {
                        refused_valid = Some(format!("add_file_with_tags: {e}"));
                        break;
                    }
                }
            }
            (B::D(x), Step::AddFileTagged { id, key, size, prio, tags }) => {
                let Kind::Download { checksums, flag_size, .. } = kind else { unreachable!() };
                let names: Vec<String> = tags.iter().map(|t| tname(*t)).collect();
                let refs: Vec<&str> = names.iter().map(String::as_str).collect();
                let flags = (flag_size > 0 && id % 2 == 0).then(|| vec![*id as u8; flag_size as usize]);
                let tag_arg: Option<&[&str]> = if refs.is_empty() && id % 2 == 0 { None } else { Some(&refs) };
                match x.add_file_with_properties(EncodingKey::from_bytes(key16(*key)), *size, *prio, checksums.then_some(*id ^ 0xa5a5_a5a5), flags, tag_arg) {
                    Ok(x) => B::D(x),
                    Err(e) => {
                        refused_valid = Some(format!("add_file_with_properties: {e}"));
                        break;
                    }
                }
            }
            (B::D(mut x), Step::Rekey { f, key }) => {
                if !x.update_file_key(*f, EncodingKey::from_bytes(key16(*key))) {
                    refused_valid = Some("update_file_key returned false".into());
                    break;
                }
                B::D(x)
            }
            (B::I(x), Step::Rekey { .. }) => B::I(x),
            (B::I(x), Step::Clear) => B::I(x.clear()),
            (B::D(mut x), Step::Clear) => {
                x.clear();
                B::D(x)
            }
            (B::I(x), Step::Reload) => match reload_install(x, kind, &mut v2_applied) {
                Ok(nb) => B::I(nb),
                Err((stage, cls, msg)) => {
                    ctx.violation(&format!("C19|{fam}|reload.{stage}|{cls}|{rclass}"), "a manifest assembled from accepted builder steps could not be built / serialised / re-parsed at a reload point", json!({"program": detail(), "error": msg, "at_step": si}));
                    return;
                }
            },
            (B::D(x), Step::Reload) => match reload_download(x) {
                Ok(nb) => B::D(nb),
                Err((stage, cls, msg)) => {
                    ctx.violation(&format!("C19|{fam}|reload.{stage}|{cls}|{rclass}"), "a manifest assembled from accepted builder steps could not be built / serialised / re-parsed at a reload point", json!({"program": detail(), "error": msg, "at_step": si}));
                    return;
                }
            },
            // ---------------- size ----------------
            (B::S(x), Step::AddTag { name, ttype }) => B::S(x.add_tag(name.clone(), ttype_of(*ttype))),
            (B::S(x), Step::AddFile { key, size, .. }) => {
                let Kind::Size { ekey_size, .. } = kind else { unreachable!() };
                B::S(x.add_entry(key16(*key)[..ekey_size as usize].to_vec(), *size))
            }
            (B::S(x), Step::Assoc { f, t, .. }) => B::S(x.tag_file(*t, *f)),
            (B::S(x), _) => B::S(x),
        });
        match resolved_removal.take() {
            Some(gone) => model.remove_positions(&gone),
            None => model.apply(s),
        }
        if other_outcome {
            // the later steps were generated for the predicted outcome (positions, counts): the program ends here and
            // what was assembled so far is judged
            rc.cnt.add("by_key_removal.outcome_differs_from_prediction(program ends at that step)", 1);
            break;
        }
    }
    if let Some(why) = refused_valid {
        // "Not flagged: builder refusals" — recorded, the program ends here
        rc.cnt.add("builder.refused_a_valid_step(observation)", 1);
        if ctx.want_sample() {
            ctx.sample(json!({"observation":"builder refused a step the model considers valid","why":why,"kind":label}));
        }
        return;
    }

    let n = model.files.len();
    let nt = model.tags.len();
    let member = model.membership();
    let set_of = |t: usize| -> Vec<usize> { (0..n).filter(|&i| member[t][i]).collect() };
    let cond = rclass;

    // ---- build -> serialise -> parse -------------------------------------------
    enum P {
        I(InstallManifest),
        D(DownloadManifest),
        S(SizeManifest),
    }
    macro_rules! stage_fail {
        ($stage:expr, $e:expr) => {{
            ctx.violation(&format!("C19|{fam}|{}|{}|{rclass}", $stage, err_class(&$e)), "a manifest assembled from accepted builder steps could not be built / serialised / re-parsed", json!({"program": detail(), "error": $e.to_string(), "files": n, "tags": nt}));
            return;
        }};
    }
    let Some(b) = b else { return };
    // every third program goes through the trait entry points instead of the inherent build / parse
    let casc_format = steps.len() % 3 == 0;

    // ---- coverage-driven extension: what the builder itself reports must be the model --------------------------
    {
        let bs_bad = |api: &str, got: Value, want: Value| {
            ctx.violation(&format!("C19|{fam}|builder-state.{api}|differs-from-set-model|{cond}"), "a query of the builder (before build) differs from the set model of the builder program", json!({"program": detail(), "files": n, "tags": nt, "got": got, "want": want}));
        };
        let mut names_sorted: Vec<String> = model.tags.iter().map(|t| t.name.clone()).collect();
        names_sorted.sort();
        let total: u64 = model.files.iter().map(|f| f.size).sum();
        match &b {
            B::I(x) => {
                if x.file_count() != n || x.tag_count() != nt || x.total_size() != total {
                    bs_bad("file_count/tag_count/total_size", json!([x.file_count(), x.tag_count(), x.total_size()]), json!([n, nt, total]));
                    return;
                }
                let mut got: Vec<String> = x.tag_names().into_iter().cloned().collect();
                got.sort();
                if got != names_sorted || model.tags.iter().any(|t| !x.has_tag(&t.name)) || x.has_tag("no-such-tag") {
                    bs_bad("tag_names/has_tag", json!(got), json!(names_sorted));
                    return;
                }
                rc.cnt.add("builder_state.install_probes", 1);
            }
            B::D(x) => {
                let Kind::Download { v, checksums, flag_size, base } = kind else { unreachable!() };
                let cfg = x.config_summary();
                let min_v = if base != 0 { 3 } else if flag_size > 0 { 2 } else { 1 };
                if x.entry_count() != n || x.tag_count() != nt || cfg.entry_count != n || cfg.tag_count != nt || cfg.version != v || cfg.has_checksum != checksums || cfg.flag_size != flag_size || cfg.base_priority != base || !cfg.is_valid_for_version(v) || cfg.minimum_version_required() != min_v {
                    bs_bad("entry_count/tag_count/config_summary", json!(format!("{cfg:?}")), json!([n, nt, v, checksums, flag_size, base, min_v]));
                    return;
                }
                let mut got: Vec<String> = x.tag_names().into_iter().map(str::to_string).collect();
                got.sort();
                if got != names_sorted || model.tags.iter().any(|t| !x.has_tag(&t.name)) || x.has_tag("no-such-tag") {
                    bs_bad("tag_names/has_tag", json!(got), json!(names_sorted));
                    return;
                }
                for (t, tag) in model.tags.iter().enumerate() {
                    let got = x.get_files_for_tag(&tag.name);
                    if got.as_deref() != Some(&set_of(t)[..]) {
                        bs_bad("get_files_for_tag", json!(got), json!(set_of(t)));
                        return;
                    }
                }
                if x.get_files_for_tag("no-such-tag").is_some() {
                    bs_bad("get_files_for_tag", json!("Some"), json!("None for an unknown tag"));
                    return;
                }
                let mut pos: Vec<usize> = if n == 0 { Vec::new() } else { vec![0, n - 1, n / 2] };
                for _ in 0..6.min(n) {
                    pos.push(rng.usize_below(n));
                }
                for i in pos {
                    let want_tags: Vec<&str> = (0..nt).filter(|&t| member[t][i]).map(|t| model.tags[t].name.as_str()).collect();
                    let key = EncodingKey::from_bytes(key16(model.files[i].key));
                    let f = x.get_file(i);
                    let f_ok = f.is_some_and(|e| e.encoding_key == key && e.file_size.as_u64() == model.files[i].size && e.priority == model.files[i].prio);
                    // a key that several files carry is found at one of them (which one is left open)
                    let found_ok = x.find_file_index(&key).is_some_and(|j| j < n && model.files[j].key == model.files[i].key);
                    if x.get_tags_for_file(i) != want_tags || !x.has_file(&key) || !found_ok || !f_ok {
                        bs_bad("get_tags_for_file/has_file/find_file_index/get_file", json!({"index": i, "tags": x.get_tags_for_file(i), "find_file_index": x.find_file_index(&key), "has_file": x.has_file(&key), "get_file_matches": f_ok}), json!({"tags": want_tags}));
                        return;
                    }
                }
                let absent = EncodingKey::from_bytes(key16(0xffff_fff0));
                if x.has_file(&absent) || x.find_file_index(&absent).is_some() || x.get_file(n).is_some() || !x.get_tags_for_file(n + 8).is_empty() {
                    bs_bad("has_file/find_file_index/get_file(absent)", json!("found"), json!("nothing for an absent key / index"));
                    return;
                }
                // operations aimed past the last file / at an absent key change nothing and say so
                let mut y = x.clone_builder();
                let refused = !y.remove_file_by_key(&absent) && !y.update_file_key(n, absent) && !y.update_file_priority(n, 1) && y.update_file_size(n, 1).is_err() && y.get_file_mut(n).is_none() && !y.remove_file(n);
                let same = y.entry_count() == n && y.tag_count() == nt && (0..nt).all(|t| y.get_files_for_tag(&model.tags[t].name).as_deref() == Some(&set_of(t)[..]));
                if !refused || !same || cfg.is_valid_for_version(0) || cfg.is_valid_for_version(4) {
                    bs_bad("out-of-range remove/update", json!({"refused": refused, "state_unchanged": same}), json!({"refused": true, "state_unchanged": true}));
                    return;
                }
                // removal by a key that several files carry, on a copy: one entry of the key or all of them leave, every
                // other file stays as it was (the same judgement as for such a step inside the program)
                let mut by_count: HashMap<u32, Vec<usize>> = HashMap::new();
                for (i, f) in model.files.iter().enumerate() {
                    by_count.entry(f.key).or_default().push(i);
                }
                let mut repeated: Vec<&Vec<usize>> = by_count.values().filter(|c| c.len() > 1).collect();
                repeated.sort();
                if !repeated.is_empty() {
                    rc.cnt.add("programs.download_with_a_key_listed_more_than_once", 1);
                    let before = model_rows(&model);
                    for _ in 0..2.min(repeated.len()) {
                        let carriers = repeated[rng.usize_below(repeated.len())];
                        let mut y = x.clone_builder();
                        if !y.remove_file_by_key(&EncodingKey::from_bytes(key16(model.files[carriers[0]].key))) {
                            rc.cnt.add("builder.refused_a_valid_step(observation)", 1);
                            continue;
                        }
                        let after = builder_rows(&y);
                        rc.cnt.add("builder_state.remove_file_by_key(key-listed-more-than-once)_on_a_copy", 1);
                        if by_key_removal_outcome(&before, &after, carriers).is_none() {
                            by_key_violation(ctx, fam, cond, detail(), steps.len(), &before, &after, carriers);
                            return;
                        }
                    }
                }
                rc.cnt.add("builder_state.download_probes", 1);
            }
            B::S(_) => {}
        }
    }
    let (bytes, parsed) = match b {
        B::I(x) => {
            let mut m = match x.build() {
                Ok(m) => m,
                Err(e) => stage_fail!("builder.build-refused-accepted-program", e),
            };
            if matches!(kind, Kind::Install { v: 2 }) && !v2_applied {
                to_install_v2(&mut m);
            }
            if casc_format {
                let bytes = match <InstallManifest as CascFormat>::build(&m) {
                    Ok(b) => b,
                    Err(e) => stage_fail!("serialise-failed", e),
                };
                match <InstallManifest as CascFormat>::parse(&bytes) {
                    Ok(p) => (bytes, P::I(p)),
                    Err(e) => stage_fail!("parse-of-own-output-failed", e),
                }
            } else {
                let bytes = match m.build() {
                    Ok(b) => b,
                    Err(e) => stage_fail!("serialise-failed", e),
                };
                match InstallManifest::parse(&bytes) {
                    Ok(p) => (bytes, P::I(p)),
                    Err(e) => stage_fail!("parse-of-own-output-failed", e),
                }
            }
        }
        B::D(x) => {
            let m = match x.build() {
                Ok(m) => m,
                Err(e) => stage_fail!("builder.build-refused-accepted-program", e),
            };
            if casc_format {
                let bytes = match <DownloadManifest as CascFormat>::build(&m) {
                    Ok(b) => b,
                    Err(e) => stage_fail!("serialise-failed", e),
                };
                match <DownloadManifest as CascFormat>::parse(&bytes) {
                    Ok(p) => (bytes, P::D(p)),
                    Err(e) => stage_fail!("parse-of-own-output-failed", e),
                }
            } else {
                let bytes = match m.build() {
                    Ok(b) => b,
                    Err(e) => stage_fail!("serialise-failed", e),
                };
                match DownloadManifest::parse(&bytes) {
                    Ok(p) => (bytes, P::D(p)),
                    Err(e) => stage_fail!("parse-of-own-output-failed", e),
                }
            }
        }
        B::S(x) => {
            let m = match x.build() {
                Ok(m) => m,
                Err(e) => stage_fail!("builder.build-refused-accepted-program", e),
            };
            if casc_format {
                let bytes = match <SizeManifest as CascFormat>::build(&m) {
                    Ok(b) => b,
                    Err(e) => stage_fail!("serialise-failed", e),
                };
                match <SizeManifest as CascFormat>::parse(&bytes) {
                    Ok(p) => (bytes, P::S(p)),
                    Err(e) => stage_fail!("parse-of-own-output-failed", e),
                }
            } else {
                let bytes = match m.build() {
                    Ok(b) => b,
                    Err(e) => stage_fail!("serialise-failed", e),
                };
                match SizeManifest::parse(&bytes) {
                    Ok(p) => (bytes, P::S(p)),
                    Err(e) => stage_fail!("parse-of-own-output-failed", e),
                }
            }
        }
    };
    if casc_format {
        rc.cnt.add("programs.through_CascFormat_build+parse", 1);
    }

    // ---- evidence bookkeeping ----------------------------------------------------
    let h = mix64(fnv64(label.as_bytes()), fnv64(&bytes));
    let has_removal = rclass != "program-without-removal";
    if n % 8 != 0 || has_removal {
        ctx.eval_nontrivial(h);
    } else {
        ctx.eval();
    }
    rc.cnt.add(&format!("programs.{label}"), 1);
    rc.cnt.add(&format!("programs.{rclass}"), 1);
    if n % 8 != 0 {
        rc.cnt.add("programs.file_count_not_multiple_of_8", 1);
    }
    if n > 70 {
        rc.cnt.add("programs.file_count>70", 1);
    }
    if model.files.iter().any(|f| f.size > u64::from(u32::MAX)) {
        rc.cnt.add("programs.with_file_size>=2^32", 1);
    }
    if model.files.iter().any(|f| f.size == MAX40) {
        rc.cnt.add("programs.with_file_size=2^40-1", 1);
    }
    if matches!(kind, Kind::Download { .. }) && model.files.iter().any(|f| f.prio == i8::MIN) && model.files.iter().any(|f| f.prio == i8::MAX) {
        rc.cnt.add("programs.download_with_priority_-128_and_127", 1);
    }
    if model.files.iter().map(|f| f.key).collect::<BTreeSet<u32>>().len() < n {
        rc.cnt.add("programs.with_a_key_listed_more_than_once", 1);
    }
    ctx.obs_max("max_file_count", n as u64);
    ctx.obs_max("max_tag_count", nt as u64);

    // ---- queries against the set model ------------------------------------------
    // a query reports a SET of files: the order in which an implementation lists them is left open by the statement
    // (manifest order, request order, priority order …); duplicates stay visible after sorting and do not equal the model
    let idx_of = |v: &[(usize, &[u8; 16])]| -> Vec<usize> {
        let mut x: Vec<usize> = v.iter().map(|(i, _)| *i).collect();
        x.sort_unstable();
        x
    };
    let mut qcount = 0u64;
    let bad = |query: &str, got: Value, want: Value, extra: Value| {
        ctx.violation(
            &format!("C19|{fam}|{query}|differs-from-set-model|{cond}"),
            "a query of the re-parsed manifest differs from the set model of the builder program",
            json!({"program": detail(), "files": n, "tags": nt, "got": got, "want": want, "query": extra}),
        );
    };
    // subsets: every single tag, every pair, 30 random subsets
    let mut subsets: Vec<Vec<usize>> = (0..nt).map(|t| vec![t]).collect();
    for a in 0..nt {
        for c in a + 1..nt {
            subsets.push(vec![a, c]);
        }
    }
    if nt > 0 {
        for _ in 0..30 {
            let k = rng.urange(1, nt.min(6));
            let mut s: Vec<usize> = (0..nt).collect();
            rng.shuffle(&mut s);
            s.truncate(k);
            subsets.push(s);
        }
        // a query's tag list denotes a SET of tags: a list that names a tag more than once (a caller that assembles
        // the list from several sources) denotes the same set as the list without the repetition. Every tag alone
        // named twice (first 8 tags), and 12 of the lists above with one to three of their names repeated at
        // random places.
        let plain = subsets.len();
        for t in 0..nt.min(8) {
            subsets.push(vec![t, t]);
        }
        for _ in 0..12 {
            let mut s = subsets[rng.usize_below(plain)].clone();
            for _ in 0..rng.urange(1, 3) {
                let again = s[rng.usize_below(s.len())];
                s.insert(rng.urange(0, s.len()), again);
            }
            subsets.push(s);
        }
    }
    // the class of a query list is part of the signature: lists of distinct names / lists that repeat a name
    let repeats = |s: &[usize]| s.iter().collect::<BTreeSet<_>>().len() < s.len();
    let lbl = |q: &str, s: &[usize]| if repeats(s) { format!("{q}[list-names-a-tag-more-than-once]") } else { q.to_string() };
    let all_of = |s: &[usize]| -> Vec<usize> { (0..n).filter(|&i| s.iter().all(|&t| member[t][i])).collect() };
    let any_of = |s: &[usize]| -> Vec<usize> { (0..n).filter(|&i| s.iter().any(|&t| member[t][i])).collect() };
    let size_sum = |v: &[usize]| -> u64 { v.iter().map(|&i| model.files[i].size).sum() };
    let keys_ok = |v: &[(usize, &[u8; 16])]| v.iter().all(|(i, k)| *i < n && **k == key16(model.files[*i].key));

    match &parsed {
        P::I(m) => {
            if m.entries.len() != n || m.tags.len() != nt {
                bad("entry-or-tag-count", json!([m.entries.len(), m.tags.len()]), json!([n, nt]), json!(null));
                return;
            }
            for (t, tag) in model.tags.iter().enumerate() {
                let got: Vec<(usize, &[u8; 16])> = m.get_files_for_tag(&tag.name).into_iter().map(|(i, e)| (i, e.content_key.as_bytes())).collect();
                qcount += 1;
                if idx_of(&got) != set_of(t) || !keys_ok(&got) {
                    bad("get_files_for_tag", json!(idx_of(&got)), json!(set_of(t)), json!({"tag": tag.name}));
                    return;
                }
                let Some(pt) = m.find_tag(&tag.name) else {
                    bad("find_tag", json!(null), json!(tag.name), json!(null));
                    return;
                };
                if pt.file_count() != set_of(t).len() || pt.get_files(n) != set_of(t) || pt.tag_type as u16 != tag.ttype {
                    bad("tag.file_count/get_files/tag_type", json!([pt.file_count(), pt.get_files(n)]), json!([set_of(t).len(), set_of(t)]), json!({"tag": tag.name}));
                    return;
                }
                if pt.is_required_for_platform(&tag.name) != (tag.ttype == TagType::Platform as u16) {
                    bad("tag.is_required_for_platform", json!(pt.is_required_for_platform(&tag.name)), json!(tag.ttype == 1), json!({"tag": tag.name}));
                    return;
                }
            }
            for s in &subsets {
                let names: Vec<&str> = s.iter().map(|&t| model.tags[t].name.as_str()).collect();
                let got: Vec<(usize, &[u8; 16])> = m.get_files_for_tags(&names).into_iter().map(|(i, e)| (i, e.content_key.as_bytes())).collect();
                let want = all_of(s);
                if idx_of(&got) != want || !keys_ok(&got) {
                    bad(&lbl("get_files_for_tags(all-of)", s), json!(idx_of(&got)), json!(want), json!({"tags": names}));
                    return;
                }
                let got_any: Vec<(usize, &[u8; 16])> = m.get_files_for_any_tag(&names).into_iter().map(|(i, e)| (i, e.content_key.as_bytes())).collect();
                let want_any = any_of(s);
                if idx_of(&got_any) != want_any || !keys_ok(&got_any) {
                    bad(&lbl("get_files_for_any_tag(any-of)", s), json!(idx_of(&got_any)), json!(want_any), json!({"tags": names}));
                    return;
                }
                let sz = m.calculate_install_size(&names);
                if sz != size_sum(&want) {
                    bad(&lbl("calculate_install_size", s), json!(sz), json!(size_sum(&want)), json!({"tags": names}));
                    return;
                }
                qcount += 3;
                if repeats(s) {
                    rc.cnt.add("query.tag_lists_naming_a_tag_more_than_once", 1);
                }
            }
            let total: u64 = model.files.iter().map(|f| f.size).sum();
            if m.total_install_size() != total {
                bad("total_install_size", json!(m.total_install_size()), json!(total), json!(null));
                return;
            }
            qcount += 1;
            // ---- coverage-driven extension -------------------------------------------------------------------
            // a tag that does not exist has no files: alone -> nothing, in an all-of -> nothing, in an any-of -> no effect
            {
                let ghost = "no-such-tag";
                let mut ok = m.get_files_for_tag(ghost).is_empty() && m.get_files_for_any_tag(&[ghost]).is_empty() && m.get_files_for_tags(&[ghost]).is_empty() && m.calculate_install_size(&[ghost]) == 0;
                if nt > 0 {
                    let t0 = rng.usize_below(nt);
                    let name = model.tags[t0].name.as_str();
                    let mut any: Vec<usize> = m.get_files_for_any_tag(&[name, ghost]).into_iter().map(|(i, _)| i).collect();
                    any.sort_unstable();
                    ok &= m.get_files_for_tags(&[name, ghost]).is_empty() && m.calculate_install_size(&[ghost, name]) == 0 && any == set_of(t0);
                }
                qcount += 5;
                if !ok {
                    bad("queries-with-unknown-tag", json!("files selected / any-of changed"), json!("an unknown tag selects nothing"), json!(null));
                    return;
                }
            }
            // mask algebra: intersect = all-of, union = any-of, decoded MSB-first over the n files
            for s in subsets.iter().filter(|s| s.len() == 2).take(60) {
                let (Some(ta), Some(tb)) = (m.find_tag(&model.tags[s[0]].name), m.find_tag(&model.tags[s[1]].name)) else { continue };
                let inter = mask_files(&ta.intersect(tb), n);
                let uni = mask_files(&ta.union(tb), n);
                qcount += 2;
                if inter != all_of(s) || mask_files(&tb.intersect(ta), n) != all_of(s) {
                    bad("tag.intersect", json!(inter), json!(all_of(s)), json!({"tags": [&ta.name, &tb.name]}));
                    return;
                }
                if uni != any_of(s) || mask_files(&tb.union(ta), n) != any_of(s) {
                    bad("tag.union", json!(uni), json!(any_of(s)), json!({"tags": [&ta.name, &tb.name]}));
                    return;
                }
            }
            for (t, tag) in model.tags.iter().enumerate() {
                let Some(pt) = m.find_tag(&tag.name) else { continue };
                if pt.is_platform_tag() != (tag.ttype == TagType::Platform as u16) {
                    bad("tag.is_platform_tag", json!(pt.is_platform_tag()), json!(tag.ttype == 1), json!({"tag": tag.name}));
                    return;
                }
                // positions beyond the mask: never a member, clearing them changes nothing, setting one grows the mask
                // without touching the membership of the n files
                if t < 3 {
                    let beyond = pt.bit_mask.len() * 8 + [0usize, 1, 7, 8, 1000][t % 5];
                    let mut c: InstallTag = pt.clone();
                    let before = c.clone();
                    c.remove_file(beyond);
                    let unchanged = c == before && !c.has_file(beyond);
                    c.add_file(beyond);
                    let grown = c.has_file(beyond) && c.get_files(n) == set_of(t) && c.file_count() == set_of(t).len() + 1;
                    c.remove_file(beyond);
                    let cleared = !c.has_file(beyond) && c.get_files(n) == set_of(t);
                    qcount += 3;
                    if !unchanged || !grown || !cleared {
                        bad("tag.has_file/add_file/remove_file(beyond-mask)", json!([unchanged, grown, cleared]), json!([true, true, true]), json!({"tag": tag.name, "position": beyond}));
                        return;
                    }
                }
            }
            // editing a tag of the parsed manifest in place (find_tag_mut) changes exactly that membership
            if n > 0 && nt > 0 {
                let t0 = rng.usize_below(nt);
                let i0 = if rng.bool() { n - 1 } else { rng.usize_below(n) };
                let mut mm = m.clone();
                let name = model.tags[t0].name.clone();
                let mut want = set_of(t0);
                if let Some(tag) = mm.find_tag_mut(&name) {
                    if member[t0][i0] {
                        tag.remove_file(i0);
                        want.retain(|&x| x != i0);
                    } else {
                        tag.add_file(i0);
                        want.push(i0);
                        want.sort_unstable();
                    }
                }
                let got: Vec<usize> = sorted(mm.get_files_for_tag(&name).into_iter().map(|(i, _)| i).collect());
                let other = (t0 + 1) % nt;
                let got_other: Vec<usize> = sorted(mm.get_files_for_tag(&model.tags[other].name).into_iter().map(|(i, _)| i).collect());
                qcount += 2;
                if got != want || (other != t0 && got_other != set_of(other)) || mm.find_tag_mut("no-such-tag").is_some() {
                    bad("find_tag_mut+add_file/remove_file", json!(got), json!(want), json!({"tag": name, "file": i0}));
                    return;
                }
            }
            let st = m.stats();
            if st.total_files != n || st.total_tags != nt || st.total_size != total {
                bad("stats.total_files/total_tags/total_size", json!([st.total_files, st.total_tags, st.total_size]), json!([n, nt, total]), json!(null));
                return;
            }
            rc.cnt.add(if st.tagged_files == any_of(&(0..nt).collect::<Vec<_>>()).len() { "install.stats.tagged_files=files-with-a-tag(observation)" } else { "install.stats.tagged_files=largest-tag(observation)" }, 1);
            // selections by path: the three path shapes of the workload have unambiguous extensions
            for (ext, rem) in [("bin", 0u32), ("BLP", 1), ("txt", 2)] {
                let want: Vec<usize> = (0..n).filter(|&i| model.files[i].id % 3 == rem).collect();
                let got: Vec<(usize, &[u8; 16])> = m.get_files_by_extension(ext).into_iter().map(|(i, e)| (i, e.content_key.as_bytes())).collect();
                let got_glob: Vec<usize> = sorted(m.find_files(&format!("*.{ext}")).into_iter().map(|(i, _)| i).collect());
                qcount += 2;
                if idx_of(&got) != want || !keys_ok(&got) {
                    bad("get_files_by_extension", json!(idx_of(&got)), json!(want), json!({"extension": ext}));
                    return;
                }
                if got_glob != want {
                    bad("find_files(*.ext)", json!(got_glob), json!(want), json!({"extension": ext}));
                    return;
                }
            }
            let mut want_ext: Vec<&str> = Vec::new();
            for (ext, rem) in [("bin", 0u32), ("blp", 1), ("txt", 2)] {
                if model.files.iter().any(|f| f.id % 3 == rem) {
                    want_ext.push(ext);
                }
            }
            if m.get_extensions() != want_ext {
                bad("get_extensions", json!(m.get_extensions()), json!(want_ext), json!(null));
                return;
            }
            rc.cnt.add("install.extension_queries", 1);
        }
        P::D(m) => {
            if m.entries.len() != n || m.tags.len() != nt {
                bad("entry-or-tag-count", json!([m.entries.len(), m.tags.len()]), json!([n, nt]), json!(null));
                return;
            }
            let Kind::Download { v, base, .. } = kind else { unreachable!() };
            for (t, tag) in model.tags.iter().enumerate() {
                let got: Vec<(usize, &[u8; 16])> = m.entries_by_tag(&tag.name).into_iter().map(|(i, e)| (i, e.encoding_key.as_bytes())).collect();
                qcount += 1;
                if idx_of(&got) != set_of(t) || !keys_ok(&got) {
                    bad("entries_by_tag", json!(idx_of(&got)), json!(set_of(t)), json!({"tag": tag.name}));
                    return;
                }
            }
            for s in &subsets {
                let names: Vec<&str> = s.iter().map(|&t| model.tags[t].name.as_str()).collect();
                let got: Vec<(usize, &[u8; 16])> = m.entries_by_tags(&names).into_iter().map(|(i, e)| (i, e.encoding_key.as_bytes())).collect();
                let want = all_of(s);
                if idx_of(&got) != want || !keys_ok(&got) {
                    bad(&lbl("entries_by_tags(all-of)", s), json!(idx_of(&got)), json!(want), json!({"tags": names}));
                    return;
                }
                let sz = m.calculate_size_for_tags(&names);
                if sz != size_sum(&want) {
                    bad(&lbl("calculate_size_for_tags", s), json!(sz.to_string()), json!(size_sum(&want).to_string()), json!({"tags": names}));
                    return;
                }
                qcount += 2;
                if repeats(s) {
                    rc.cnt.add("query.tag_lists_naming_a_tag_more_than_once", 1);
                }
            }
            // platform filter: every (Platform tag, Architecture tag) pair
            for (a, ta) in model.tags.iter().enumerate() {
                for (c, tc) in model.tags.iter().enumerate() {
                    if ta.ttype == TagType::Platform as u16 && tc.ttype == TagType::Architecture as u16 {
                        let got: Vec<usize> = sorted(m.entries_for_platform(&ta.name, &tc.name).into_iter().map(|(i, _)| i).collect());
                        let want = all_of(&[a, c]);
                        qcount += 1;
                        rc.cnt.add("query.entries_for_platform", 1);
                        if got != want {
                            bad("entries_for_platform", json!(got), json!(want), json!({"platform": ta.name, "architecture": tc.name}));
                            return;
                        }
                    }
                }
            }
            // priority filters; effective priority = priority - base (V3), judged in wide arithmetic
            let eff = |i: usize| -> i32 { i32::from(model.files[i].prio) - if v >= 3 { i32::from(base) } else { 0 } };
            let cat = |e: i32| -> PriorityCategory {
                if e < 0 {
                    PriorityCategory::Critical
                } else if e == 0 {
                    PriorityCategory::Essential
                } else if e <= 2 {
                    PriorityCategory::High
                } else if e <= 5 {
                    PriorityCategory::Normal
                } else {
                    PriorityCategory::Low
                }
            };
            for c in [PriorityCategory::Critical, PriorityCategory::Essential, PriorityCategory::High, PriorityCategory::Normal, PriorityCategory::Low] {
                let got: Vec<usize> = sorted(m.entries_by_priority(c).into_iter().map(|(i, _)| i).collect());
                let want: Vec<usize> = (0..n).filter(|&i| cat(eff(i)) == c).collect();
                qcount += 1;
                if got != want {
                    bad("entries_by_priority", json!(got), json!(want), json!({"category": format!("{c}"), "base_priority": base, "version": v}));
                    return;
                }
            }
            let saturates = (0..n).any(|i| eff(i) < -128 || eff(i) > 127);
            if saturates {
                rc.cnt.add("programs.download_v3_effective_priority_outside_i8", 1);
            }
            for _ in 0..4 {
                // ranges whose meaning does not depend on how out-of-range effective priorities are clamped
                let (lo, hi) = if saturates { (-127i8, 126i8) } else { (i8::MIN, i8::MAX) };
                let a = rng.range(0, (i32::from(hi) - i32::from(lo)) as u64) as i32 + i32::from(lo);
                let c = rng.range(0, (i32::from(hi) - i32::from(lo)) as u64) as i32 + i32::from(lo);
                let (mn, mx) = (a.min(c), a.max(c));
                let got: Vec<usize> = sorted(m.entries_by_priority_range(mn as i8, mx as i8).into_iter().map(|(i, _)| i).collect());
                let want: Vec<usize> = (0..n).filter(|&i| eff(i) >= mn && eff(i) <= mx).collect();
                qcount += 1;
                if got != want {
                    bad("entries_by_priority_range", json!(got), json!(want), json!({"min": mn, "max": mx, "base_priority": base}));
                    return;
                }
            }
            let total: u64 = model.files.iter().map(|f| f.size).sum();
            let ess: u64 = (0..n).filter(|&i| eff(i) <= 0).map(|i| model.files[i].size).sum();
            if m.total_download_size() != total {
                bad("total_download_size", json!(m.total_download_size().to_string()), json!(total.to_string()), json!(null));
                return;
            }
            if m.essential_download_size() != ess {
                bad("essential_download_size", json!(m.essential_download_size().to_string()), json!(ess.to_string()), json!({"base_priority": base}));
                return;
            }
            qcount += 2;
            // ---- coverage-driven extension -------------------------------------------------------------------
            {
                let ghost = "no-such-tag";
                let mut ok = m.entries_by_tag(ghost).is_empty() && m.entries_by_tags(&[ghost]).is_empty() && m.calculate_size_for_tags(&[ghost]) == 0;
                if nt > 0 {
                    let name = model.tags[rng.usize_below(nt)].name.as_str();
                    ok &= m.entries_by_tags(&[name, ghost]).is_empty() && m.calculate_size_for_tags(&[ghost, name]) == 0 && m.entries_for_platform(name, ghost).is_empty();
                }
                qcount += 4;
                if !ok {
                    bad("queries-with-unknown-tag", json!("entries selected"), json!("an unknown tag selects nothing"), json!(null));
                    return;
                }
                // the empty tag list is left open by the statement: recorded only
                rc.cnt.add(if m.entries_by_tags(&[]).len() == n { "download.entries_by_tags(empty-list)=all-entries(observation)" } else { "download.entries_by_tags(empty-list)=other(observation)" }, 1);
            }
            let Kind::Download { checksums, flag_size, .. } = kind else { unreachable!() };
            let hdr_base: i8 = if v >= 3 { base } else { 0 };
            // tag lookup and the tag-level filters
            let names: Vec<&str> = model.tags.iter().map(|t| t.name.as_str()).collect();
            if m.tag_names() != names || m.find_tag("no-such-tag").is_some() {
                bad("tag_names/find_tag", json!(m.tag_names()), json!(names), json!(null));
                return;
            }
            let platform_names: Vec<&str> = model.tags.iter().filter(|t| t.ttype == TagType::Platform as u16).map(|t| t.name.as_str()).chain(["no-such-platform"]).take(3).collect();
            let arch_names: Vec<&str> = model.tags.iter().filter(|t| t.ttype == TagType::Architecture as u16).map(|t| t.name.as_str()).chain(["no-such-arch"]).take(3).collect();
            let locale_names: Vec<&str> = model.tags.iter().filter(|t| t.ttype == TagType::Locale as u16).map(|t| t.name.as_str()).chain(["xxXX"]).take(3).collect();
            let region_names: Vec<Option<&str>> = model.tags.iter().filter(|t| t.ttype == TagType::Region as u16).map(|t| Some(t.name.as_str())).chain([None, Some("no-such-region")]).take(3).collect();
            let mut custom_filter: Vec<String> = model.tags.iter().step_by(2).map(|t| t.name.clone()).collect();
            custom_filter.push("Mac".to_string());
            for tag in &model.tags {
                let Some(pt) = m.find_tag(&tag.name) else {
                    bad("find_tag", json!(null), json!(tag.name), json!(null));
                    return;
                };
                let ty = tag.ttype;
                if pt.name != tag.name || pt.tag_type as u16 != ty {
                    bad("find_tag", json!([&pt.name, pt.tag_type as u16]), json!([&tag.name, ty]), json!(null));
                    return;
                }
                for p in &platform_names {
                    for a in &arch_names {
                        let want = if ty == TagType::Platform as u16 { tag.name == *p } else if ty == TagType::Architecture as u16 { tag.name == *a } else { true };
                        qcount += 1;
                        if pt.matches_platform(p, a) != want {
                            bad("tag.matches_platform", json!(!want), json!(want), json!({"tag": tag.name, "type": ty, "platform": p, "architecture": a}));
                            return;
                        }
                    }
                }
                for l in &locale_names {
                    for r in &region_names {
                        let want = if ty == TagType::Locale as u16 { tag.name == *l } else if ty == TagType::Region as u16 { r.is_none_or(|r| tag.name == r) } else { true };
                        qcount += 1;
                        if pt.matches_locale(l, *r) != want {
                            bad("tag.matches_locale", json!(!want), json!(want), json!({"tag": tag.name, "type": ty, "locale": l, "region": r}));
                            return;
                        }
                    }
                }
                for filter in [&custom_filter, &DownloadTag::create_platform_filter(), &DownloadTag::create_architecture_filter(), &DownloadTag::create_locale_filter()] {
                    qcount += 1;
                    if pt.matches_filter(filter) != filter.contains(&tag.name) {
                        bad("tag.matches_filter", json!(pt.matches_filter(filter)), json!(filter.contains(&tag.name)), json!({"tag": tag.name, "filter": filter}));
                        return;
                    }
                }
            }
            // the tag selections of the manifest and the batch analysis agree with the single-tag predicates
            let sel_names = |v: Vec<&DownloadTag>| -> Vec<String> { v.into_iter().map(|t| t.name.clone()).collect() };
            let by_pred = |f: &dyn Fn(&DownloadTag) -> bool| -> Vec<String> { m.tags.iter().filter(|t| f(t)).map(|t| t.name.clone()).collect() };
            let an = TagAnalysis::analyze(&m.tags);
            let counts_ok = an.total_tags == nt
                && an.platform_tags == by_pred(&|t| t.is_platform_specific()).len()
                && an.locale_tags == by_pred(&|t| t.is_locale_specific()).len()
                && an.optional_tags == by_pred(&|t| t.is_optional()).len()
                && an.required_tags == by_pred(&|t| t.is_required()).len()
                && an.streamable_tags == by_pred(&|t| t.is_streamable()).len();
            qcount += 3;
            if sel_names(m.platform_tags()) != by_pred(&|t| t.is_platform_specific()) || sel_names(m.optional_tags()) != by_pred(&|t| t.is_optional()) || !counts_ok || m.supports_streaming() != (an.streamable_tags > 0) {
                bad("platform_tags/optional_tags/TagAnalysis(batch-vs-single-predicate)", json!([sel_names(m.platform_tags()), sel_names(m.optional_tags())]), json!([by_pred(&|t| t.is_platform_specific()), by_pred(&|t| t.is_optional())]), json!(null));
                return;
            }
            // a Platform tag is platform specific, an Option tag is optional (the two classes the statement's filters name)
            for tag in &model.tags {
                let Some(pt) = m.find_tag(&tag.name) else { continue };
                if (tag.ttype == TagType::Platform as u16 || tag.ttype == TagType::Architecture as u16) && !pt.is_platform_specific() || tag.ttype == TagType::Option as u16 && !pt.is_optional() {
                    bad("tag.is_platform_specific/is_optional", json!(false), json!(true), json!({"tag": tag.name, "type": tag.ttype}));
                    return;
                }
            }
            // statistics that are size totals / counts over the entries
            let st = m.stats();
            let large = model.files.iter().filter(|f| f.size > u64::from(u32::MAX)).count();
            if st.version != v || st.entry_count != n || st.tag_count != nt || st.total_size != total || st.large_file_count != large || st.has_checksums != checksums || st.has_flags != (flag_size > 0) || st.base_priority != hdr_base {
                bad("stats", json!(format!("{st:?}")), json!([v, n, nt, total.to_string(), large, checksums, flag_size > 0, hdr_base]), json!(null));
                return;
            }
            let ci = m.compression_info();
            if ci.as_ref().map(|c| (c.total_compressed_size, c.file_count)) != (n > 0).then_some((total, n)) {
                bad("compression_info", json!(format!("{ci:?}")), json!([total.to_string(), n]), json!(null));
                return;
            }
            let pa = m.analyze_priorities();
            let streamable: u64 = (0..n).filter(|&i| matches!(cat(eff(i)), PriorityCategory::Normal | PriorityCategory::Low)).map(|i| model.files[i].size).sum();
            let mut pa_ok = pa.total_files == n && pa.total_size == total && pa.essential_size == ess && pa.streamable_size == streamable && pa.base_priority_adjustment == hdr_base;
            for c in PriorityCategory::all_ordered() {
                let idx: Vec<usize> = (0..n).filter(|&i| cat(eff(i)) == c).collect();
                let (cnt, sz) = pa.categories.get(&c).map_or((0, 0), |s| (s.file_count, s.total_size));
                pa_ok &= cnt == idx.len() && sz == size_sum(&idx);
                if let (Some(s), false) = (pa.categories.get(&c), idx.is_empty()) {
                    pa_ok &= s.max_file_size == idx.iter().map(|&i| model.files[i].size).max().unwrap_or(0) && s.min_file_size == idx.iter().map(|&i| model.files[i].size).min().unwrap_or(0);
                }
            }
            if !saturates && n > 0 {
                let lo = (0..n).map(eff).min().unwrap_or(0);
                let hi = (0..n).map(eff).max().unwrap_or(0);
                pa_ok &= i32::from(pa.priority_range.0) == lo && i32::from(pa.priority_range.1) == hi;
            }
            qcount += 1;
            if !pa_ok {
                bad("analyze_priorities", json!({"total_files": pa.total_files, "total_size": pa.total_size.to_string(), "essential_size": pa.essential_size.to_string(), "streamable_size": pa.streamable_size.to_string(), "range": [pa.priority_range.0, pa.priority_range.1]}), json!({"total_files": n, "total_size": total.to_string(), "essential_size": ess.to_string(), "streamable_size": streamable.to_string()}), json!({"base_priority": base, "version": v}));
                return;
            }
            // per-entry priority predicates (critical < 0, essential <= 0, high <= 1) and the rank order
            let mut prev: Option<(i32, u8)> = None;
            let mut order: Vec<usize> = (0..n).collect();
            order.sort_by_key(|&i| eff(i));
            for &i in &order {
                let e = &m.entries[i];
                let (ec, ee, eh) = (e.is_critical(&m.header), e.is_essential(&m.header), e.is_high_priority(&m.header));
                if ec != (eff(i) < 0) || ee != (eff(i) <= 0) || eh != (eff(i) <= 1) || e.priority_category(&m.header) != cat(eff(i)) {
                    bad("entry.is_critical/is_essential/is_high_priority/priority_category", json!([ec, ee, eh]), json!([eff(i) < 0, eff(i) <= 0, eff(i) <= 1]), json!({"index": i, "priority": model.files[i].prio, "base_priority": base}));
                    return;
                }
                let rank = e.download_rank(&m.header);
                if let Some((pe, pr)) = prev {
                    // a lower effective priority never ranks after a higher one (equal after clamping is fine)
                    if !saturates && ((pe < eff(i)) != (pr < rank)) {
                        bad("entry.download_rank", json!([pr, rank]), json!("rank order = effective priority order"), json!({"index": i, "effective": [pe, eff(i)]}));
                        return;
                    }
                }
                prev = Some((eff(i), rank));
            }
            qcount += n as u64;
            // a category is its documented priority range
            for c in PriorityCategory::all_ordered() {
                let (lo, hi) = c.priority_range();
                let a: Vec<usize> = sorted(m.entries_by_priority(c).into_iter().map(|(i, _)| i).collect());
                let r: Vec<usize> = sorted(m.entries_by_priority_range(lo, hi).into_iter().map(|(i, _)| i).collect());
                qcount += 1;
                if a != r {
                    bad("entries_by_priority-vs-entries_by_priority_range(priority_range)", json!(a), json!(r), json!({"category": format!("{c}")}));
                    return;
                }
            }
            // download plans: a priority ceiling and / or a category filter, ordered by (effective priority, position)
            let all_cats = PriorityCategory::all_ordered();
            let mut some_cats: Vec<PriorityCategory> = all_cats.iter().copied().filter(|_| rng.bool()).collect();
            if some_cats.is_empty() {
                some_cats.push(PriorityCategory::High);
            }
            let ceiling = rng.range(0, 253) as i32 - 127; // -127..=126: independent of how out-of-range values are clamped
            let plans: Vec<(&str, DownloadPlan, Option<i32>, Option<&[PriorityCategory]>)> = vec![
                ("DownloadPlan::create(all)", DownloadPlan::create(&m.entries, &m.header, None, None), None, None),
                ("DownloadPlan::essential_only", DownloadPlan::essential_only(&m.entries, &m.header), Some(0), None),
                ("DownloadPlan::critical_only", DownloadPlan::critical_only(&m.entries, &m.header), Some(-1), None),
                ("DownloadPlan::by_categories", DownloadPlan::by_categories(&m.entries, &m.header, &some_cats), None, Some(&some_cats)),
                ("DownloadPlan::create(ceiling+categories)", DownloadPlan::create(&m.entries, &m.header, Some(ceiling as i8), Some(&some_cats)), Some(ceiling), Some(&some_cats)),
            ];
            for (api, plan, max, cats) in &plans {
                let mut want: Vec<usize> = (0..n).filter(|&i| max.is_none_or(|mx| eff(i) <= mx) && cats.is_none_or(|cs| cs.contains(&cat(eff(i))))).collect();
                let mut got: Vec<usize> = plan.entries.iter().map(|e| e.0).collect();
                if saturates {
                    // two clamped values compare equal where the wide values differ: only the selected set is judged
                    got.sort_unstable();
                } else {
                    want.sort_by_key(|&i| (eff(i), i));
                }
                let cats_ok = plan.entries.iter().all(|e| e.0 < n && e.1 == cat(eff(e.0)) && (saturates || i32::from(e.2) == eff(e.0)));
                let ess_plan: u64 = want.iter().filter(|&&i| eff(i) <= 0).map(|&i| model.files[i].size).sum();
                let mut breakdown_ok = true;
                for c in &all_cats {
                    let idx: Vec<usize> = want.iter().copied().filter(|&i| cat(eff(i)) == *c).collect();
                    breakdown_ok &= plan.category_breakdown.get(c).copied().unwrap_or((0, 0)) == (idx.len(), size_sum(&idx));
                }
                qcount += 1;
                rc.cnt.add("query.download_plans", 1);
                if got != want || !cats_ok || plan.total_size != size_sum(&want) || plan.essential_size != ess_plan || !breakdown_ok {
                    bad(api, json!({"entries": got, "total_size": plan.total_size.to_string(), "essential_size": plan.essential_size.to_string()}), json!({"entries": want, "total_size": size_sum(&want).to_string(), "essential_size": ess_plan.to_string()}), json!({"max_priority": max, "categories": cats.map(|c| c.iter().map(|x| format!("{x}")).collect::<Vec<_>>()), "base_priority": base, "version": v}));
                    return;
                }
            }
        }
        P::S(m) => {
            if m.entries.len() != n || m.tags.len() != nt {
                bad("entry-or-tag-count", json!([m.entries.len(), m.tags.len()]), json!([n, nt]), json!(null));
                return;
            }
            let total: u64 = model.files.iter().map(|f| f.size).sum();
            if m.header.total_size() != total {
                bad("header.total_size", json!(m.header.total_size().to_string()), json!(total.to_string()), json!(null));
                return;
            }
            for (i, f) in model.files.iter().enumerate() {
                let Kind::Size { ekey_size, .. } = kind else { unreachable!() };
                if m.entries[i].esize != f.size || m.entries[i].key != key16(f.key)[..ekey_size as usize] {
                    bad("entry.esize/key", json!([m.entries[i].esize.to_string()]), json!([f.size.to_string()]), json!({"index": i}));
                    return;
                }
            }
            for (t, tag) in model.tags.iter().enumerate() {
                let pt = &m.tags[t];
                qcount += 1;
                if pt.name != tag.name || pt.get_files(n) != set_of(t) || pt.file_count() != set_of(t).len() {
                    bad("tag.get_files/file_count", json!(pt.get_files(n)), json!(set_of(t)), json!({"tag": tag.name}));
                    return;
                }
            }
            qcount += 1;
        }
    }
    rc.cnt.add("queries_compared", qcount);

    // ---- independent reader of the serialised bytes ----------------------------
    match decode(kind, &bytes) {
        Err(e) => {
            ctx.violation(&format!("C19|{fam}|independent-reader|cannot-decode-serialised-manifest|{cond}"), "the serialised manifest does not follow the documented layout (mask length = ceil(n/8) etc.)", json!({"program": detail(), "error": e, "bytes": bytes.len(), "files": n, "tags": nt}));
            return;
        }
        Ok(d) => {
            let mut ok = d.n == n && d.tags.len() == nt && d.keys.len() == n;
            if ok {
                for (i, f) in model.files.iter().enumerate() {
                    let k = key16(f.key);
                    if d.keys[i] != k[..d.keys[i].len()] || d.sizes[i] != f.size || (!d.prios.is_empty() && d.prios[i] != f.prio) {
                        ok = false;
                    }
                }
            }
            if !ok {
                ctx.violation(&format!("C19|{fam}|independent-reader|entries-differ-from-model|{cond}"), "file entries decoded from the bytes (keys/sizes/priorities, in order) differ from the model", json!({"program": detail(), "files": n, "decoded_files": d.n}));
                return;
            }
            for (t, tag) in model.tags.iter().enumerate() {
                let (name, ty, mask) = &d.tags[t];
                let got = mask_files(mask, n);
                if *name != tag.name || *ty != tag.ttype || got != set_of(t) {
                    ctx.violation(
                        &format!("C19|{fam}|independent-reader|msb-first-bit-relation-differs-from-set-model|{cond}"),
                        "reading the tag masks MSB-first from the serialised bytes gives a different file<->tag relation than the builder program",
                        json!({"program": detail(), "tag": tag.name, "mask": hex::encode(mask), "decoded_files": got, "want": set_of(t), "files": n}),
                    );
                    return;
                }
                // padding bits beyond file n-1 (not assigned to any file): observation
                if n % 8 != 0 && mask.last().is_some_and(|b| b & (0xffu8 >> (n % 8)) != 0) {
                    rc.cnt.add("independent_reader.padding_bits_nonzero(observation)", 1);
                }
            }
            if let Some(tot) = d.header_total {
                if tot != model.files.iter().map(|f| f.size).sum::<u64>() {
                    ctx.violation(&format!("C19|{fam}|independent-reader|header-total-differs-from-sum|{cond}"), "total size in the serialised header differs from the sum of the entries", json!({"program": detail(), "header_total": tot.to_string()}));
                    return;
                }
            }
            rc.cnt.add("independent_reader.manifests_decoded", 1);
            rc.cnt.add("independent_reader.tag_masks_compared", nt as u64);
        }
    }

    // ---- event log for the Python reader ----------------------------------------
    if let Some(w) = rc.log.as_mut() {
        let klen = if let Kind::Size { ekey_size, .. } = kind { ekey_size as usize } else { 16 };
        let line = json!({"kind": fam, "version": label, "hex": hex::encode(&bytes), "n": n,
            "keys": model.files.iter().map(|f| hex::encode(&key16(f.key)[..klen])).collect::<Vec<_>>(),
            "sizes": model.files.iter().map(|f| f.size.to_string()).collect::<Vec<_>>(),
            "tags": model.tags.iter().enumerate().map(|(t, tag)| json!({"name": tag.name, "type": tag.ttype, "files": set_of(t)})).collect::<Vec<_>>()});
        let _ = writeln!(w, "{line}");
        *rc.log_lines += 1;
    }
}

// ---------------------------------------------------------------------------
// schedule
// ---------------------------------------------------------------------------

fn kind_for(slot: usize, rng: &mut Rng) -> Kind {
    match slot % 5 {
        0 => Kind::Install { v: if rng.chance(1, 3) { 2 } else { 1 } },
        1 => Kind::Download { v: 1, checksums: rng.bool(), flag_size: 0, base: 0 },
        2 => Kind::Download { v: 2, checksums: rng.bool(), flag_size: rng.below(5) as u8, base: 0 },
        3 => match rng.below(8) {
            // the parameter pairs of the essential_content / streaming_optimized presets
            0 => Kind::Download { v: 3, checksums: rng.bool(), flag_size: 0, base: -10 },
            1 => Kind::Download { v: 3, checksums: rng.bool(), flag_size: 1, base: -5 },
            _ => Kind::Download { v: 3, checksums: rng.bool(), flag_size: rng.below(5) as u8, base: gen_prio(rng) },
        },
        _ => {
            if rng.bool() {
                Kind::Size { v: 2, ekey_size: *rng.pick(&[9u8, 16, 1]), esize_bytes: 4 }
            } else {
                Kind::Size { v: 1, ekey_size: *rng.pick(&[9u8, 16, 5]), esize_bytes: rng.urange(1, 8) as u8 }
            }
        }
    }
}

fn python_check(ctx: &Ctx, path: &std::path::Path) -> u64 {
    let out = std::process::Command::new("python3").arg("/verif/pyref/c19.py").arg(path).output();
    match out {
        Ok(o) => {
            let text = String::from_utf8_lossy(&o.stdout).to_string();
            let mut checked = 0u64;
            for line in text.lines() {
                if let Some(rest) = line.strip_prefix("CHECKED ") {
                    checked = rest.trim().parse().unwrap_or(0);
                }
                if let Some(rest) = line.strip_prefix("MISMATCH ") {
                    let mut it = rest.split_whitespace();
                    let kind = it.next().unwrap_or("?");
                    let what = it.next().unwrap_or("?");
                    ctx.violation(&format!("C19|{kind}|python-reader|{what}"), "the independent Python reader of the serialised manifest disagrees with the expected file<->tag relation", json!({"line": rest.chars().take(400).collect::<String>()}));
                }
            }
            if !o.status.success() && !text.contains("MISMATCH") {
                ctx.inconclusive(&format!("python cross-check failed to run: {}", String::from_utf8_lossy(&o.stderr).lines().last().unwrap_or("")));
            }
            checked
        }
        Err(e) => {
            ctx.inconclusive(&format!("python3 not runnable: {e}"));
            0
        }
    }
}

/// Index list of a query result as a set (order left open by the statement; duplicates stay visible).
fn sorted(mut v: Vec<usize>) -> Vec<usize> {
    v.sort_unstable();
    v
}

fn main() {
    let ctx = Ctx::init("C19", "exploration");
    ctx.set_rule(
        "one case = one builder program (5..=120 random steps over add tag / add file / associate (4 API variants) / dissociate / remove file (by index or by key; in half of the programs one add in 4 / 10 / 25 repeats the key of a file that is already listed and a re-key may take another file's key, so a key can be carried by several files — removal by such a key may take one of its entries or all of them and nothing else) / remove tag / update size+priority (setters or get_file_mut) / add file with tags in one call / re-key a file / clear / reload (build -> serialise -> parse -> Builder::from_manifest, the program continues on the rebuilt builder) / deliberately invalid steps, then fix-up steps to an exact final file count and tag count, then a pattern that tags the last file) run against InstallManifestBuilder (V1, and V2 = the built manifest given the V2 header and file-type bytes), DownloadManifestBuilder v1/v2/v3 (new() or the preset constructors) (checksums, flag sizes 0..4, base priority over i8) or SizeManifestBuilder v1/v2, followed by build -> serialise -> parse and comparison of every tag, every tag pair and 30 random tag subsets (all-of, any-of, platform pairs, priority categories and ranges, size totals) with a set model tag -> set<file id>, the builder's own state queries before the build, tag mask algebra (intersect / union / positions beyond the mask), tag-level platform / locale / name filters, batch tag analysis vs single predicates, statistics that are counts or size totals, priority analysis and download plans (ceiling and category filters, order, totals, breakdown), selections by extension, and by an independent MSB-first decode of the serialised bytes (Rust here, Python over the event log); every third program goes through the CascFormat trait entry points. The sweep gives every final file count 0..=70 x every manifest kind (5) x at least two tag counts, then random larger counts; tag counts 0..=20. non-trivial = final file count not a multiple of 8 or the program contains a removal; distinct = hash of (kind, serialised bytes).",
    );
    ctx.assume("the set model in the harness (file ids, positions shift down on removal) is the meaning of 'the files that were associated'");
    ctx.assume("the byte layouts used by the independent readers come from the format descriptions in the module docs (header fields, entry fields, tag = cstring + u16 BE type + ceil(n/8) mask bytes)");
    std::panic::set_hook(Box::new(|_| {}));

    if let Some(d) = ctx.replay_detail() {
        let prog = d.get("program").unwrap_or(&d);
        let kind = prog.get("kind").and_then(Kind::from_json);
        let steps: Option<Vec<Step>> = prog.get("steps").and_then(Value::as_array).map(|a| a.iter().filter_map(Step::from_json).collect());
        match (kind, steps) {
            (Some(kind), Some(steps)) if !steps.is_empty() => {
                let mut cnt = Cnt::default();
                let mut lines = 0u64;
                let mut rng = ctx.rng(1);
                let mut rc = RunCtx { ctx: &ctx, cnt: &mut cnt, log: None, log_lines: &mut lines };
                run_program(&mut rc, kind, &steps, &mut rng);
                println!("replayed a {} program of {} steps", kind.label(), steps.len());
                ctx.eval_nontrivial(1);
                ctx.eval_nontrivial(2);
                cnt.flush(&ctx);
            }
            _ => ctx.inconclusive("replay file carries no builder program (python-reader findings: re-run the tier with the recorded seed)"),
        }
        ctx.finish();
    }

    let threads = 16usize;
    let sweep_rounds: usize = ctx.pick(12, 60);
    let sweep = 5 * 71 * sweep_rounds;
    let total: usize = ctx.pick(12_000, 40_000).max(sweep + 100);
    let big_max: usize = ctx.pick(1_500, 4_000);
    let log_every: usize = ctx.pick(4, 1);
    let next = AtomicUsize::new(0);
    let Ok(logdir) = tempfile::tempdir() else {
        ctx.inconclusive("tempdir failed");
        ctx.finish();
    };
    let covered = std::sync::Mutex::new(std::collections::BTreeMap::<String, BTreeSet<usize>>::new());
    let tag_counts = std::sync::Mutex::new(BTreeSet::<usize>::new());
    let py_checked = std::sync::atomic::AtomicU64::new(0);
    let py_lines = std::sync::atomic::AtomicU64::new(0);
    std::thread::scope(|s| {
        for th in 0..threads {
            let (next, ctx, covered, tag_counts, py_checked, py_lines) = (&next, &ctx, &covered, &tag_counts, &py_checked, &py_lines);
            let logpath = logdir.path().join(format!("c19-events-{th}.jsonl"));
            s.spawn(move || {
                let mut cnt = Cnt::default();
                let mut lines = 0u64;
                let mut log = std::fs::File::create(&logpath).ok().map(std::io::BufWriter::new);
                let mut local_cov: HashMap<String, BTreeSet<usize>> = HashMap::new();
                let mut local_tags: BTreeSet<usize> = BTreeSet::new();
                loop {
                    let p = next.fetch_add(1, Ordering::Relaxed);
                    if p >= total {
                        break;
                    }
                    let mut rng = ctx.rng(2_000_000 + p as u64);
                    let kind = kind_for(p, &mut rng);
                    let slot = p / 5;
                    let (n, t) = if p < sweep {
                        let n = slot % 71;
                        let round = slot / 71;
                        let t = if round == 0 { 1 + (n * 7) % 20 } else { rng.urange(0, 20) };
                        (n, t)
                    } else {
                        let n = match rng.below(4) {
                            0 => rng.urange(71, 200),
                            1 => 8 * rng.urange(9, 60) + rng.urange(0, 1) * rng.urange(1, 7),
                            _ => rng.urange(71, big_max),
                        };
                        (n, rng.urange(0, 20))
                    };
                    let prog = gen_program(&mut rng, kind, n, t);
                    if prog.model.files.len() != n || prog.model.tags.len() != t {
                        ctx.inconclusive("program generator missed its target counts");
                        continue;
                    }
                    let do_log = p % log_every == 0;
                    {
                        let mut rc = RunCtx { ctx, cnt: &mut cnt, log: if do_log { log.as_mut() } else { None }, log_lines: &mut lines };
                        let r = std::panic::catch_unwind(std::panic::AssertUnwindSafe(|| run_program(&mut rc, prog.kind, &prog.steps, &mut rng)));
                        if let Err(pn) = r {
                            ctx.violation(
                                &format!("C19|{}|panic|{}", kind.family(), removal_class(&prog.steps)),
                                "a builder / manifest call panicked on a builder program",
                                json!({"program": program_detail(kind, &prog.steps), "panic": vh::monitor::watchdog::panic_message(&pn)}),
                            );
                        }
                    }
                    if prog.last_file_touched || n == 0 {
                        local_cov.entry(kind.label()).or_default().insert(n);
                    }
                    local_tags.insert(t);
                    cnt.add("programs.total", 1);
                    cnt.add("steps.total", prog.steps.len() as u64);
                    if p < 3 {
                        ctx.sample(json!({"kind": kind.json(), "final_files": n, "final_tags": t, "steps": prog.steps.iter().take(30).map(Step::json).collect::<Vec<_>>(), "steps_total": prog.steps.len()}));
                    }
                }
                if let Some(w) = log.as_mut() {
                    let _ = w.flush();
                }
                drop(log);
                if lines > 0 {
                    py_lines.fetch_add(lines, Ordering::Relaxed);
                    py_checked.fetch_add(python_check(ctx, &logpath), Ordering::Relaxed);
                }
                cnt.flush(ctx);
                let mut g = covered.lock().unwrap_or_else(std::sync::PoisonError::into_inner);
                for (k, v) in local_cov {
                    g.entry(k).or_default().extend(v);
                }
                tag_counts.lock().unwrap_or_else(std::sync::PoisonError::into_inner).extend(local_tags);
            });
        }
    });

    let py_lines = py_lines.load(Ordering::Relaxed);
    let py_checked = py_checked.load(Ordering::Relaxed);
    ctx.obs("python_reader.event_log_lines", py_lines);
    ctx.obs("python_reader.manifests_checked", py_checked);
    if py_checked == 0 || py_checked != py_lines {
        ctx.inconclusive(&format!("python reader checked {py_checked} of {py_lines} logged manifests"));
    }
    // coverage floor: every file count 0..=70 for every kind family, every tag count 0..=20
    let cov = covered.lock().unwrap_or_else(std::sync::PoisonError::into_inner);
    let mut cov_json = serde_json::Map::new();
    for fam in ["install", "download-v1", "download-v2", "download-v3", "size"] {
        let mut set: BTreeSet<usize> = BTreeSet::new();
        for (k, v) in cov.iter() {
            if k.starts_with(fam) {
                set.extend(v.iter().copied());
            }
        }
        let missing: Vec<usize> = (0..=70).filter(|n| !set.contains(n)).collect();
        cov_json.insert(fam.to_string(), json!({"file_counts_0..=70_with_last_file_tagged": 71 - missing.len(), "missing": missing, "largest": set.iter().next_back()}));
        if !missing.is_empty() {
            ctx.inconclusive(&format!("{fam}: final file counts never reached with the last file tagged: {missing:?}"));
        }
    }
    let tc = tag_counts.lock().unwrap_or_else(std::sync::PoisonError::into_inner);
    let missing_t: Vec<usize> = (0..=20).filter(|t| !tc.contains(t)).collect();
    cov_json.insert("tag_counts_covered".into(), json!(tc.iter().copied().collect::<Vec<_>>()));
    if !missing_t.is_empty() {
        ctx.inconclusive(&format!("tag counts never reached: {missing_t:?}"));
    }
    ctx.set_extra("sweep_coverage", Value::Object(cov_json));
    for k in ["step.reload(from_manifest)", "step.add_file_with_tags", "step.update_file_key", "step.clear", "query.download_plans", "programs.install-v2", "programs.through_CascFormat_build+parse", "builder_state.download_probes", "builder_state.install_probes", "install.extension_queries", "builder.download_preset_constructors", "step.remove_file", "step.remove_file_by_key(key-listed-more-than-once)", "builder_state.remove_file_by_key(key-listed-more-than-once)_on_a_copy", "programs.with_a_key_listed_more_than_once", "step.remove_tag", "step.dissociate", "programs.with_file_size=2^40-1", "programs.download_with_priority_-128_and_127", "programs.file_count>70", "query.entries_for_platform", "query.tag_lists_naming_a_tag_more_than_once", "step.add_file_with_tags(list-names-a-tag-more-than-once)", "independent_reader.manifests_decoded"] {
        if ctx.get_obs(k) == 0 {
            ctx.inconclusive(&format!("situation never reached: {k}"));
        }
    }
    ctx.finish();
}
