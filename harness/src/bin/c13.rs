//! C13 — version-service queries fail over in order and cache only good answers.
//!
//! Three loopback mock servers (TACT "HTTPS" slot, TACT HTTP slot, Ribbit TCP)
//! written on raw tokio sockets play one behaviour each; the real
//! `RibbitTactClient::query` runs against them. Monitor = request logs of the
//! mocks (global sequence number per scenario) + returned value +
//! `ProtocolCache` contents. Oracle = decision table written from the
//! statement (see `judge_chain`), plus cache-expiry histories with real sleeps
//! kept >= 3x clear of the TTL boundary, plus "parse of the split response ==
//! parse of the unsplit bytes" for TCP segmentations.

use cascette_formats::CascFormat;
use cascette_formats::bpsv::BpsvDocument;
use cascette_protocol::client::RibbitTactClient;
use cascette_protocol::config::{CacheConfig, ClientConfig};
use cascette_protocol::mime_parser::{is_v1_mime_response, parse_v1_mime_to_bpsv};
use serde_json::{Value, json};
use sha2::{Digest, Sha256};
use std::path::PathBuf;
use std::sync::atomic::{AtomicU64, Ordering};
use std::sync::{Arc, Mutex};
use std::time::{Duration, Instant};
use tokio::io::{AsyncReadExt, AsyncWriteExt};
use tokio::net::{TcpListener, TcpStream};
use vh::{Ctx, Rng, fnv64, mix64};

#[path = "c13/ext.rs"]
mod ext;

// ------------------------------------------------------------------ endpoints / documents

#[derive(Clone, Copy, Debug, PartialEq, Eq, Hash)]
enum EpClass {
    Versions,
    Cdns,
    Bgdl,
    Summary,
    Certs,
    Ocsp,
}

const ALL_CLASSES: [EpClass; 6] = [EpClass::Versions, EpClass::Cdns, EpClass::Bgdl, EpClass::Summary, EpClass::Certs, EpClass::Ocsp];

impl EpClass {
    fn endpoint(self) -> &'static str {
        match self {
            EpClass::Versions => "v1/products/wow/versions",
            EpClass::Cdns => "v1/products/wow/cdns",
            EpClass::Bgdl => "v1/products/wow/bgdl",
            EpClass::Summary => "v1/summary",
            EpClass::Certs => "v1/certs/5168ff90af0207753cccd9656462a212b859723b",
            EpClass::Ocsp => "v1/ocsp/5168ff90af0207753cccd9656462a212b859723b",
        }
    }
    /// Endpoint string of the class in variant `v` (all variants are well-formed endpoints of the
    /// same class: other product names with every admitted character kind, the TACT spelling
    /// without the `v1/products/` prefix, other certificate hashes). Variant 0 = `endpoint()`.
    fn endpoint_variant(self, v: u8) -> String {
        let kind = self.name();
        match self {
            EpClass::Versions | EpClass::Cdns | EpClass::Bgdl => match v % 5 {
                0 => self.endpoint().to_string(),
                1 => format!("v1/products/wow_classic_era/{kind}"),
                2 => format!("v1/products/pro-dev.2/{kind}"),
                3 => format!("wowt/{kind}"),
                _ => format!("v1/products/WoW9/{kind}"),
            },
            EpClass::Summary => self.endpoint().to_string(),
            EpClass::Certs => match v % 2 {
                0 => self.endpoint().to_string(),
                _ => "v1/certs/782a8a710b950421127250a3e91b751ca356e202".to_string(),
            },
            EpClass::Ocsp => match v % 2 {
                0 => self.endpoint().to_string(),
                _ => "v1/ocsp/782a8a710b950421127250a3e91b751ca356e202".to_string(),
            },
        }
    }
    fn tcp_only(self) -> bool {
        matches!(self, EpClass::Summary | EpClass::Certs | EpClass::Ocsp)
    }
    /// Which time-to-live field(s) of `CacheConfig` (0 = ribbit_ttl "TTL for Ribbit/TACT responses", "version info";
    /// 1 = cdn_ttl "TTL for CDN content"; 2 = config_ttl "TTL for configuration files") can be meant for an answer of
    /// this class, going by the documentation of the fields and of the protocol only. versions and bgdl answers are
    /// version documents of the version service ("bgdl: BPSV background download (same as versions)"): ribbit_ttl.
    /// A cdns answer is a Ribbit/TACT response about CDNs: ribbit_ttl or cdn_ttl, left open. summary / certs / ocsp
    /// are Ribbit responses that no field names: ribbit_ttl or the general config_ttl, left open.
    fn ttl_fields(self) -> &'static [usize] {
        match self {
            EpClass::Versions | EpClass::Bgdl => &[0],
            EpClass::Cdns => &[0, 1],
            EpClass::Summary | EpClass::Certs | EpClass::Ocsp => &[0, 2],
        }
    }
    fn name(self) -> &'static str {
        match self {
            EpClass::Versions => "versions",
            EpClass::Cdns => "cdns",
            EpClass::Bgdl => "bgdl",
            EpClass::Summary => "summary",
            EpClass::Certs => "certs",
            EpClass::Ocsp => "ocsp",
        }
    }
    fn parse(s: &str) -> Option<Self> {
        ALL_CLASSES.into_iter().find(|c| c.name() == s)
    }
    fn disposition(self) -> &'static str {
        match self {
            EpClass::Versions => "version",
            EpClass::Cdns => "cdns",
            EpClass::Bgdl => "bgdl",
            EpClass::Summary => "summary",
            EpClass::Certs => "cert",
            EpClass::Ocsp => "ocsp",
        }
    }
}

#[derive(Clone, Copy, Debug, PartialEq, Eq, Hash)]
enum Slot {
    Https,
    Http,
    Tcp,
}

impl Slot {
    fn name(self) -> &'static str {
        match self {
            Slot::Https => "https",
            Slot::Http => "http",
            Slot::Tcp => "tcp",
        }
    }
}

/// Shape of a valid BPSV text (all are valid: the reader skips blank lines).
#[derive(Clone, Copy, Debug, PartialEq, Eq, Hash)]
enum Shape {
    Plain,
    TrailingBlank,
    InteriorBlank,
    NoFinalNewline,
    Crlf,
}

const SHAPES: [Shape; 5] = [Shape::Plain, Shape::TrailingBlank, Shape::InteriorBlank, Shape::NoFinalNewline, Shape::Crlf];

impl Shape {
    fn name(self) -> &'static str {
        match self {
            Shape::Plain => "plain",
            Shape::TrailingBlank => "trailing-blank",
            Shape::InteriorBlank => "interior-blank",
            Shape::NoFinalNewline => "no-final-newline",
            Shape::Crlf => "crlf",
        }
    }
    fn parse(s: &str) -> Option<Self> {
        SHAPES.into_iter().find(|x| x.name() == s)
    }
}

fn hex16(seed: u64) -> String {
    let a = mix64(seed, 0x11);
    let b = mix64(seed, 0x22);
    format!("{a:016x}{b:016x}")
}

/// A valid BPSV answer for (class, origin, uniq, generation). `origin` and `uniq`
/// are embedded in the rows so that the monitor can tell whose answer came back.
fn bpsv_text(class: EpClass, origin: Slot, uniq: u64, generation: u32, shape: Shape, rows: usize) -> String {
    let tag = format!("{}-{}-g{}", origin.name(), uniq, generation);
    let mut lines: Vec<String> = Vec::new();
    match class {
        EpClass::Versions | EpClass::Bgdl => {
            lines.push("Region!STRING:0|BuildConfig!HEX:16|CDNConfig!HEX:16|KeyRing!HEX:16|BuildId!DEC:4|VersionsName!String:0|ProductConfig!HEX:16".into());
            lines.push(format!("## seqn = {}", 1000 + (uniq % 1_000_000) * 4 + u64::from(generation)));
            for (i, region) in ["us", "eu", "cn", "kr", "tw", "sg", "xx"].iter().take(rows.max(1)).enumerate() {
                lines.push(format!("{region}|{}|{}|{}|{}|{tag}|{}", hex16(uniq + i as u64), hex16(uniq * 3 + i as u64), hex16(uniq * 5), 50000 + (uniq % 10000) as i64 + i64::from(generation), hex16(uniq * 7)));
            }
        }
        EpClass::Cdns => {
            lines.push("Name!STRING:0|Path!STRING:0|Hosts!STRING:0|Servers!STRING:0|ConfigPath!STRING:0".into());
            lines.push(format!("## seqn = {}", 2000 + (uniq % 1_000_000) * 4 + u64::from(generation)));
            for region in ["us", "eu", "cn", "kr", "tw", "sg", "xx"].iter().take(rows.max(1)) {
                lines.push(format!("{region}|tpr/wow|{tag}.example.net level3.example.net|http://{tag}.example.net/?maxhosts=4 https://level3.example.net/?fallback=1|tpr/configs/data"));
            }
        }
        EpClass::Summary | EpClass::Certs | EpClass::Ocsp => {
            lines.push("Product!STRING:0|Seqn!DEC:7|Flags!STRING:0".into());
            lines.push(format!("## seqn = {}", 3000 + (uniq % 1_000_000) * 4 + u64::from(generation)));
            for (i, p) in ["wow", "wowt", "wow_classic", "agent", "bna", "d3", "pro"].iter().take(rows.max(1)).enumerate() {
                lines.push(format!("{p}|{}|{}", 7000 + i as u64 + uniq % 1000, if i == 0 { tag.as_str() } else { "cdn" }));
            }
        }
    }
    let nl = if shape == Shape::Crlf { "\r\n" } else { "\n" };
    let mut out = String::new();
    for (i, l) in lines.iter().enumerate() {
        out.push_str(l);
        let last = i + 1 == lines.len();
        if !(last && shape == Shape::NoFinalNewline) {
            out.push_str(nl);
        }
        // interior blank lines: one after the seqn line, one after the first data row
        if shape == Shape::InteriorBlank && (i == 1 || i == 2) && !last {
            out.push_str(nl);
        }
    }
    if shape == Shape::TrailingBlank {
        out.push_str(nl);
    }
    out
}

/// Layout variants of a V1 MIME response. `Std` is the layout of the live service; the others vary
/// what the statement leaves to the server: multipart subtype, presence / termination of the checksum
/// epilogue, encoding of the signature part, disposition of the data part. Whether a variant is a
/// well-formed answer is decided by the reference parse of the unsplit bytes (see `ref_tcp`), the
/// `self_check` pins the expectation used when the matrix is built.
#[derive(Clone, Copy, Debug, PartialEq, Eq, Hash)]
enum V1Var {
    Std,
    BadSum,
    /// multipart/mixed instead of multipart/alternative
    Mixed,
    /// no checksum epilogue at all
    NoChecksum,
    /// checksum line is the last thing in the stream, without a line terminator
    ChecksumNoNewline,
    /// signature part declared text/plain, valid base64
    SigText,
    /// signature part declared text/plain, not base64
    SigTextRaw,
    /// no signature part
    NoSignature,
    /// a `Checksum:` line that is not 64 hex digits (not a checksum: the epilogue is ignored)
    ShortChecksum,
    /// the data part carries a disposition that names no endpoint kind (`inline`): the text body is the answer
    InlineDisposition,
    /// data part is not BPSV
    DataNotBpsv,
    /// there is only a (binary) signature part
    SignatureOnly,
}

const V1_GOOD_VARIANTS: [V1Var; 8] = [V1Var::Mixed, V1Var::NoChecksum, V1Var::ChecksumNoNewline, V1Var::SigText, V1Var::SigTextRaw, V1Var::NoSignature, V1Var::ShortChecksum, V1Var::InlineDisposition];
const V1_BAD_VARIANTS: [V1Var; 2] = [V1Var::DataNotBpsv, V1Var::SignatureOnly];

/// Which of the V1_GOOD_VARIANTS layouts (index = variant * 2 + crlf) the client's parser does NOT take for a well-formed
/// answer. The statement leaves these layouts to the server and does not say which are well-formed, so this is observed by
/// `self_check` (reference parse of the unsplit bytes) instead of being demanded: a parser that, say, refuses a
/// `Checksum:` line that is not a checksum makes that layout a malformed answer for the decision table, not a harness error.
static V1_LAYOUT_REFUSED: [std::sync::atomic::AtomicBool; 16] = [const { std::sync::atomic::AtomicBool::new(false) }; 16];

fn v1_layout_refused(crlf: bool, v: u8) -> bool {
    V1_LAYOUT_REFUSED[(v as usize % V1_GOOD_VARIANTS.len()) * 2 + usize::from(crlf)].load(Ordering::Relaxed)
}

fn v1_mime_x(bpsv: &str, class: EpClass, uniq: u64, crlf: bool, var: V1Var) -> Vec<u8> {
    let nl = if crlf { "\r\n" } else { "\n" };
    let boundary = format!("cascverif{uniq:x}");
    let subtype = if var == V1Var::Mixed { "mixed" } else { "alternative" };
    let mut m = String::new();
    m.push_str(&format!("MIME-Version: 1.0{nl}"));
    m.push_str(&format!("Content-Type: multipart/{subtype}; boundary=\"{boundary}\"{nl}"));
    m.push_str(&format!("From: mock/{uniq}{nl}{nl}"));
    if var != V1Var::SignatureOnly {
        m.push_str(&format!("--{boundary}{nl}Content-Type: text/plain{nl}Content-Disposition: {}{nl}{nl}", if var == V1Var::InlineDisposition { "inline" } else { class.disposition() }));
        if var == V1Var::DataNotBpsv {
            m.push_str(&format!("this part is not a version table ({uniq}){nl}second line{nl}"));
        } else {
            m.push_str(bpsv);
            if !bpsv.ends_with('\n') {
                m.push_str(nl);
            }
        }
    }
    match var {
        V1Var::NoSignature => {}
        V1Var::SigText => {
            m.push_str(&format!("--{boundary}{nl}Content-Type: text/plain{nl}Content-Disposition: signature{nl}{nl}"));
            m.push_str(&format!("TUlJ{}QUJDREVG{nl}", hex16(uniq))); // 44 characters of the base64 alphabet
        }
        V1Var::SigTextRaw => {
            m.push_str(&format!("--{boundary}{nl}Content-Type: text/plain{nl}Content-Disposition: signature{nl}{nl}"));
            m.push_str(&format!("*** not base64 / {} ***{nl}", hex16(uniq)));
        }
        _ => {
            m.push_str(&format!("--{boundary}{nl}Content-Type: application/octet-stream{nl}Content-Disposition: signature{nl}{nl}"));
            m.push_str(&format!("MIIB{}AQID{nl}", hex16(uniq)));
        }
    }
    m.push_str(&format!("--{boundary}--{nl}"));
    let mut h = Sha256::new();
    h.update(m.as_bytes());
    let mut sum = format!("{:x}", h.finalize());
    match var {
        V1Var::BadSum => {
            // flip one hex digit
            let first = sum.remove(0);
            sum.insert(0, if first == '0' { '1' } else { '0' });
            m.push_str(&format!("Checksum: {sum}{nl}"));
        }
        V1Var::NoChecksum => {}
        V1Var::ChecksumNoNewline => m.push_str(&format!("Checksum: {sum}")),
        V1Var::ShortChecksum => m.push_str(&format!("Checksum: {}{nl}", &sum[..40])),
        _ => m.push_str(&format!("Checksum: {sum}{nl}")),
    }
    m.into_bytes()
}

/// V1 MIME wrapping in the layout of the live service: multipart/alternative,
/// data part + signature part, SHA-256 checksum epilogue over everything before it.
fn v1_mime(bpsv: &str, class: EpClass, uniq: u64, crlf: bool, good_checksum: bool) -> Vec<u8> {
    v1_mime_x(bpsv, class, uniq, crlf, if good_checksum { V1Var::Std } else { V1Var::BadSum })
}

fn malformed_body(variant: u8, uniq: u64) -> Vec<u8> {
    match variant % 3 {
        0 => format!("this is not a version answer ({uniq})\nsecond line\n").into_bytes(),
        // valid header, row with the wrong number of fields
        1 => format!("Region!STRING:0|BuildId!DEC:4|Name!STRING:0\n## seqn = 7\nus|{uniq}\n").into_bytes(),
        // valid header, non-numeric DEC value
        _ => format!("Region!STRING:0|BuildId!DEC:4\n## seqn = 7\nus|build-{uniq}\n").into_bytes(),
    }
}

/// Canonical projection of a parsed answer (schema, sequence number, typed values).
fn proj(doc: &BpsvDocument) -> String {
    let rows: Vec<String> = doc.rows().iter().map(|r| format!("{:?}", r.values())).collect();
    format!("{} # seqn={:?} # {}", doc.schema().to_header(), doc.sequence_number(), rows.join(" ; "))
}

/// Reference: parse of the unsplit bytes of an HTTP body.
fn ref_http(body: &[u8]) -> Option<String> {
    <BpsvDocument as CascFormat>::parse(body).ok().map(|d| proj(&d))
}

/// Reference: parse of the unsplit bytes of a Ribbit TCP response (format
/// detection and parsers are the library's own pure functions; what is under
/// test is the transport loop, the chain and the cache, not the parsers).
fn ref_tcp(bytes: &[u8]) -> Option<String> {
    let r = std::panic::catch_unwind(|| {
        if is_v1_mime_response(bytes) {
            parse_v1_mime_to_bpsv(bytes).ok().map(|d| proj(&d))
        } else {
            <BpsvDocument as CascFormat>::parse(bytes).ok().map(|d| proj(&d))
        }
    });
    r.unwrap_or(None)
}

// ------------------------------------------------------------------ behaviours

#[derive(Clone, Debug, PartialEq, Eq, Hash)]
enum HttpBeh {
    Valid(Shape),
    Status(u16, Option<u64>),
    Malformed(u8),
    Refused,
    CloseBeforeHeaders,
    CloseMidBody,
    ResetMidBody,
    Stall,
    StallMidBody,
    /// 200 whose body framing is broken: 0 = invalid chunked encoding, 1 = `Content-Encoding: gzip` over bytes that are not gzip
    Garbled(u8),
}

#[derive(Clone, Copy, Debug, PartialEq, Eq, Hash)]
enum Class {
    Good,
    Transient,
    Definitive,
    Malformed,
}

impl HttpBeh {
    fn code(&self) -> String {
        match self {
            HttpBeh::Valid(s) => format!("valid:{}", s.name()),
            HttpBeh::Status(c, None) => format!("s{c}"),
            HttpBeh::Status(c, Some(ra)) => format!("s{c}ra{ra}"),
            HttpBeh::Malformed(v) => format!("malformed{v}"),
            HttpBeh::Refused => "refused".into(),
            HttpBeh::CloseBeforeHeaders => "closed-before-headers".into(),
            HttpBeh::CloseMidBody => "closed-mid-body".into(),
            HttpBeh::ResetMidBody => "reset-mid-body".into(),
            HttpBeh::Stall => "stall".into(),
            HttpBeh::StallMidBody => "stall-mid-body".into(),
            HttpBeh::Garbled(v) => format!("garbled{v}"),
        }
    }
    fn parse(s: &str) -> Option<Self> {
        Some(match s {
            "refused" => HttpBeh::Refused,
            "closed-before-headers" => HttpBeh::CloseBeforeHeaders,
            "closed-mid-body" => HttpBeh::CloseMidBody,
            "reset-mid-body" => HttpBeh::ResetMidBody,
            "stall" => HttpBeh::Stall,
            "stall-mid-body" => HttpBeh::StallMidBody,
            _ => {
                if let Some(sh) = s.strip_prefix("valid:") {
                    HttpBeh::Valid(Shape::parse(sh)?)
                } else if let Some(v) = s.strip_prefix("malformed") {
                    HttpBeh::Malformed(v.parse().ok()?)
                } else if let Some(v) = s.strip_prefix("garbled") {
                    HttpBeh::Garbled(v.parse().ok()?)
                } else if let Some(rest) = s.strip_prefix('s') {
                    if let Some((c, ra)) = rest.split_once("ra") {
                        HttpBeh::Status(c.parse().ok()?, Some(ra.parse().ok()?))
                    } else {
                        HttpBeh::Status(rest.parse().ok()?, None)
                    }
                } else {
                    return None;
                }
            }
        })
    }
    /// Class of the decision table (statement: transient = 5xx, 429, refused,
    /// closed mid-response, stall; definitive = 4xx other than 429).
    fn class(&self) -> Class {
        match self {
            HttpBeh::Valid(_) => Class::Good,
            HttpBeh::Status(429, _) => Class::Transient,
            HttpBeh::Status(c, _) if (500..600).contains(c) => Class::Transient,
            HttpBeh::Status(_, _) => Class::Definitive,
            // broken framing of a 200 response: not a well-formed answer; the statement does not say whether
            // it counts as transient, so (as for a malformed body) stopping and moving on are both accepted
            HttpBeh::Malformed(_) | HttpBeh::Garbled(_) => Class::Malformed,
            HttpBeh::Refused | HttpBeh::CloseBeforeHeaders | HttpBeh::CloseMidBody | HttpBeh::ResetMidBody | HttpBeh::Stall | HttpBeh::StallMidBody => Class::Transient,
        }
    }
    /// Coarse behaviour class used in signatures / statistics.
    fn family(&self) -> String {
        match self {
            HttpBeh::Valid(_) => "valid".into(),
            HttpBeh::Status(429, _) => "429".into(),
            HttpBeh::Status(c, _) if (500..600).contains(c) => "5xx".into(),
            HttpBeh::Status(_, _) => "4xx".into(),
            HttpBeh::Malformed(_) => "malformed".into(),
            HttpBeh::Garbled(_) => "garbled-framing".into(),
            HttpBeh::Stall | HttpBeh::StallMidBody => "stall".into(),
            other => other.code(),
        }
    }
    fn stalls(&self) -> bool {
        matches!(self, HttpBeh::Stall | HttpBeh::StallMidBody)
    }
}

#[derive(Clone, Debug, PartialEq, Eq, Hash)]
enum TcpBeh {
    ValidV2(Shape),
    /// V1 MIME + good checksum; (crlf, shape of the embedded BPSV)
    ValidV1(bool, Shape),
    /// V1 MIME in another layout the reference accepts: (crlf, index into V1_GOOD_VARIANTS)
    V1Layout(bool, u8),
    BadChecksum,
    Malformed(u8),
    /// V1 MIME envelope without a usable data part (index into V1_BAD_VARIANTS)
    MalformedV1(u8),
    Refused,
    /// connection closed (FIN) in the middle of the response
    CloseMid,
    /// connection reset (RST) in the middle of the response
    ResetMid,
    Stall,
}

impl TcpBeh {
    fn code(&self) -> String {
        match self {
            TcpBeh::ValidV2(s) => format!("v2:{}", s.name()),
            TcpBeh::ValidV1(crlf, s) => format!("v1-{}:{}", if *crlf { "crlf" } else { "lf" }, s.name()),
            TcpBeh::V1Layout(crlf, v) => format!("v1x-{}:{}", if *crlf { "crlf" } else { "lf" }, v),
            TcpBeh::BadChecksum => "bad-checksum".into(),
            TcpBeh::Malformed(v) => format!("malformed{v}"),
            TcpBeh::MalformedV1(v) => format!("malformed-v1-{v}"),
            TcpBeh::Refused => "refused".into(),
            TcpBeh::CloseMid => "closed-mid-response".into(),
            TcpBeh::ResetMid => "reset-mid-response".into(),
            TcpBeh::Stall => "stall".into(),
        }
    }
    fn parse(s: &str) -> Option<Self> {
        Some(match s {
            "bad-checksum" => TcpBeh::BadChecksum,
            "refused" => TcpBeh::Refused,
            "closed-mid-response" => TcpBeh::CloseMid,
            "reset-mid-response" => TcpBeh::ResetMid,
            "stall" => TcpBeh::Stall,
            _ => {
                if let Some(sh) = s.strip_prefix("v2:") {
                    TcpBeh::ValidV2(Shape::parse(sh)?)
                } else if let Some(sh) = s.strip_prefix("v1-crlf:") {
                    TcpBeh::ValidV1(true, Shape::parse(sh)?)
                } else if let Some(sh) = s.strip_prefix("v1-lf:") {
                    TcpBeh::ValidV1(false, Shape::parse(sh)?)
                } else if let Some(v) = s.strip_prefix("v1x-crlf:") {
                    TcpBeh::V1Layout(true, v.parse().ok()?)
                } else if let Some(v) = s.strip_prefix("v1x-lf:") {
                    TcpBeh::V1Layout(false, v.parse().ok()?)
                } else if let Some(v) = s.strip_prefix("malformed-v1-") {
                    TcpBeh::MalformedV1(v.parse().ok()?)
                } else if let Some(v) = s.strip_prefix("malformed") {
                    TcpBeh::Malformed(v.parse().ok()?)
                } else {
                    return None;
                }
            }
        })
    }
    fn class(&self) -> Class {
        match self {
            TcpBeh::V1Layout(crlf, v) if v1_layout_refused(*crlf, *v) => Class::Malformed,
            TcpBeh::ValidV2(_) | TcpBeh::ValidV1(_, _) | TcpBeh::V1Layout(_, _) => Class::Good,
            TcpBeh::BadChecksum | TcpBeh::Malformed(_) | TcpBeh::MalformedV1(_) => Class::Malformed,
            TcpBeh::Refused | TcpBeh::CloseMid | TcpBeh::ResetMid | TcpBeh::Stall => Class::Transient,
        }
    }
    fn family(&self) -> String {
        match self {
            TcpBeh::ValidV2(_) => "valid-v2".into(),
            TcpBeh::ValidV1(_, _) => "valid-v1".into(),
            TcpBeh::V1Layout(_, _) => "valid-v1-layout".into(),
            TcpBeh::Malformed(_) => "malformed".into(),
            TcpBeh::MalformedV1(_) => "malformed-v1".into(),
            other => other.code(),
        }
    }
}

/// What the TCP mock will write before closing: (bytes, reference parse of the unsplit bytes).
fn tcp_payload(beh: &TcpBeh, class: EpClass, uniq: u64, generation: u32, rows: usize) -> Vec<u8> {
    match beh {
        TcpBeh::ValidV2(shape) => bpsv_text(class, Slot::Tcp, uniq, generation, *shape, rows).into_bytes(),
        TcpBeh::ValidV1(crlf, shape) => v1_mime(&bpsv_text(class, Slot::Tcp, uniq, generation, *shape, rows), class, uniq, *crlf, true),
        TcpBeh::V1Layout(crlf, v) => v1_mime_x(&bpsv_text(class, Slot::Tcp, uniq, generation, Shape::Plain, rows), class, uniq, *crlf, V1_GOOD_VARIANTS[*v as usize % V1_GOOD_VARIANTS.len()]),
        TcpBeh::BadChecksum => v1_mime(&bpsv_text(class, Slot::Tcp, uniq, generation, Shape::Plain, rows), class, uniq, true, false),
        TcpBeh::Malformed(v) => malformed_body(*v, uniq),
        TcpBeh::MalformedV1(v) => v1_mime_x(&bpsv_text(class, Slot::Tcp, uniq, generation, Shape::Plain, rows), class, uniq, *v % 2 == 0, V1_BAD_VARIANTS[*v as usize % V1_BAD_VARIANTS.len()]),
        // truncated inside the type token of the header line: not a well-formed answer
        TcpBeh::CloseMid | TcpBeh::ResetMid | TcpBeh::Stall => {
            let full = bpsv_text(class, Slot::Tcp, uniq, generation, Shape::Plain, rows);
            let cut = full.find(":0|").map_or(8, |p| p - 3);
            full.as_bytes()[..cut].to_vec()
        }
        TcpBeh::Refused => Vec::new(),
    }
}

// ------------------------------------------------------------------ mock servers

#[derive(Clone, Debug)]
struct LogEntry {
    seq: u64,
    slot: Slot,
    what: String,
}

#[derive(Clone)]
struct Log {
    entries: Arc<Mutex<Vec<LogEntry>>>,
    seq: Arc<AtomicU64>,
}

impl Log {
    fn new() -> Self {
        Self { entries: Arc::new(Mutex::new(Vec::new())), seq: Arc::new(AtomicU64::new(0)) }
    }
    fn push(&self, slot: Slot, what: String) {
        let seq = self.seq.fetch_add(1, Ordering::SeqCst);
        self.entries.lock().unwrap_or_else(std::sync::PoisonError::into_inner).push(LogEntry { seq, slot, what });
    }
    fn snapshot(&self) -> Vec<LogEntry> {
        self.entries.lock().unwrap_or_else(std::sync::PoisonError::into_inner).clone()
    }
    fn len(&self) -> usize {
        self.entries.lock().unwrap_or_else(std::sync::PoisonError::into_inner).len()
    }
}

/// A loopback port that refuses connections for as long as the value lives: the
/// socket is bound (so nobody else can get the port) but never listens.
struct ReservedPort {
    fd: i32,
    port: u16,
}

impl ReservedPort {
    fn new() -> Option<Self> {
        // SAFETY: plain socket/bind/getsockname calls on a fresh descriptor with correctly sized arguments.
        unsafe {
            let fd = libc::socket(libc::AF_INET, libc::SOCK_STREAM | libc::SOCK_CLOEXEC, 0);
            if fd < 0 {
                return None;
            }
            let mut addr: libc::sockaddr_in = std::mem::zeroed();
            addr.sin_family = libc::AF_INET as libc::sa_family_t;
            addr.sin_port = 0;
            addr.sin_addr = libc::in_addr { s_addr: u32::from_ne_bytes([127, 0, 0, 1]) };
            let len = std::mem::size_of::<libc::sockaddr_in>() as libc::socklen_t;
            if libc::bind(fd, (&raw const addr).cast(), len) != 0 {
                libc::close(fd);
                return None;
            }
            let mut out: libc::sockaddr_in = std::mem::zeroed();
            let mut olen = len;
            if libc::getsockname(fd, (&raw mut out).cast(), &raw mut olen) != 0 {
                libc::close(fd);
                return None;
            }
            Some(Self { fd, port: u16::from_be(out.sin_port) })
        }
    }
}

impl Drop for ReservedPort {
    fn drop(&mut self) {
        // SAFETY: fd is owned by this value.
        unsafe {
            libc::close(self.fd);
        }
    }
}

fn set_linger0(s: &TcpStream) {
    use std::os::fd::AsRawFd;
    let l = libc::linger { l_onoff: 1, l_linger: 0 };
    // SAFETY: valid fd, correctly sized option value.
    unsafe {
        libc::setsockopt(s.as_raw_fd(), libc::SOL_SOCKET, libc::SO_LINGER, (&raw const l).cast(), std::mem::size_of::<libc::linger>() as libc::socklen_t);
    }
}

/// What an HTTP mock does with the next request; can be swapped while it runs.
#[derive(Clone)]
struct HttpScript {
    beh: HttpBeh,
    /// body served with 200 (valid or malformed)
    body: Vec<u8>,
}

/// split values at or above this are not byte offsets but "pause between segments" markers (ms added)
const SLOW_GAP_BASE: usize = 1_000_000_000;

#[derive(Clone)]
struct TcpScript {
    beh: TcpBeh,
    payload: Vec<u8>,
    /// segment boundaries (byte offsets, strictly increasing, inside payload)
    splits: Vec<usize>,
}

struct Mock {
    port: u16,
    task: Option<tokio::task::JoinHandle<()>>,
    _reserved: Option<ReservedPort>,
}

impl Drop for Mock {
    fn drop(&mut self) {
        if let Some(t) = self.task.take() {
            t.abort();
        }
    }
}

async fn read_until(s: &mut TcpStream, pat: &[u8], max: usize) -> Vec<u8> {
    let mut buf = Vec::new();
    let mut tmp = [0u8; 2048];
    let r = tokio::time::timeout(Duration::from_secs(10), async {
        while !buf.windows(pat.len()).any(|w| w == pat) && buf.len() < max {
            match s.read(&mut tmp).await {
                Ok(0) | Err(_) => break,
                Ok(n) => buf.extend_from_slice(&tmp[..n]),
            }
        }
    })
    .await;
    let _ = r;
    buf
}

async fn serve_http(mut s: TcpStream, slot: Slot, script: HttpScript, log: Log) {
    let req = read_until(&mut s, b"\r\n\r\n", 16384).await;
    if req.is_empty() {
        return; // a probe that sent nothing is not a request
    }
    let line = String::from_utf8_lossy(&req).lines().next().unwrap_or("").to_string();
    log.push(slot, line);
    let _ = s.set_nodelay(true);
    let head = |status: u16, len: usize, extra: &str| format!("HTTP/1.1 {status} Mock\r\nContent-Type: text/plain\r\nContent-Length: {len}\r\nConnection: close\r\n{extra}\r\n");
    match &script.beh {
        HttpBeh::Valid(_) | HttpBeh::Malformed(_) => {
            let _ = s.write_all(head(200, script.body.len(), "").as_bytes()).await;
            let _ = s.write_all(&script.body).await;
            let _ = s.shutdown().await;
        }
        HttpBeh::Status(code, ra) => {
            let extra = ra.map(|v| format!("Retry-After: {v}\r\n")).unwrap_or_default();
            let _ = s.write_all(head(*code, 0, &extra).as_bytes()).await;
            let _ = s.shutdown().await;
        }
        HttpBeh::CloseBeforeHeaders => {}
        HttpBeh::CloseMidBody | HttpBeh::ResetMidBody | HttpBeh::StallMidBody => {
            let half = script.body.len() / 2;
            let _ = s.write_all(head(200, script.body.len(), "").as_bytes()).await;
            let _ = s.write_all(&script.body[..half]).await;
            let _ = s.flush().await;
            tokio::time::sleep(Duration::from_millis(8)).await;
            match script.beh {
                HttpBeh::ResetMidBody => set_linger0(&s),
                HttpBeh::StallMidBody => std::future::pending::<()>().await,
                _ => {
                    let _ = s.shutdown().await;
                }
            }
        }
        HttpBeh::Stall => std::future::pending::<()>().await,
        HttpBeh::Refused => {}
        HttpBeh::Garbled(v) => {
            if v % 2 == 0 {
                let _ = s.write_all(b"HTTP/1.1 200 Mock\r\nContent-Type: text/plain\r\nTransfer-Encoding: chunked\r\nConnection: close\r\n\r\nZZ;not-a-size\r\n").await;
                let _ = s.write_all(&script.body).await;
            } else {
                let _ = s.write_all(format!("HTTP/1.1 200 Mock\r\nContent-Type: text/plain\r\nContent-Encoding: gzip\r\nContent-Length: {}\r\nConnection: close\r\n\r\n", script.body.len()).as_bytes()).await;
                let _ = s.write_all(&script.body).await;
            }
            let _ = s.shutdown().await;
        }
    }
}

async fn serve_tcp(mut s: TcpStream, script: TcpScript, log: Log, segments_written: Arc<AtomicU64>) {
    let req = read_until(&mut s, b"\n", 4096).await;
    if req.is_empty() {
        return;
    }
    log.push(Slot::Tcp, String::from_utf8_lossy(&req).trim_end().to_string());
    let _ = s.set_nodelay(true);
    match &script.beh {
        TcpBeh::Stall => {
            let _ = s.write_all(&script.payload).await;
            std::future::pending::<()>().await;
        }
        TcpBeh::CloseMid | TcpBeh::ResetMid => {
            let _ = s.write_all(&script.payload).await;
            let _ = s.flush().await;
            tokio::time::sleep(Duration::from_millis(8)).await;
            if script.beh == TcpBeh::ResetMid {
                set_linger0(&s);
            } else {
                let _ = s.shutdown().await;
            }
        }
        TcpBeh::Refused => {}
        _ => {
            let mut from = 0usize;
            // a split value >= SLOW_GAP_BASE is not a cut: it encodes the pause between segments in ms
            let gap_ms = script.splits.iter().copied().filter(|&c| c >= SLOW_GAP_BASE).map(|c| (c - SLOW_GAP_BASE) as u64).max().unwrap_or(4);
            let mut cuts: Vec<usize> = script.splits.iter().copied().filter(|&c| c > 0 && c < script.payload.len()).collect();
            cuts.push(script.payload.len());
            for (i, cut) in cuts.iter().enumerate() {
                if *cut <= from {
                    continue;
                }
                if s.write_all(&script.payload[from..*cut]).await.is_err() {
                    return;
                }
                let _ = s.flush().await;
                segments_written.fetch_add(1, Ordering::Relaxed);
                from = *cut;
                if i + 1 < cuts.len() {
                    tokio::time::sleep(Duration::from_millis(gap_ms)).await;
                }
            }
            let _ = s.shutdown().await;
        }
    }
}

/// Bind a loopback listener, patiently: on a machine that runs other network jobs the ephemeral ports (or the descriptor
/// budget) can be used up for a moment; that is the environment's business and must not end a run as inconclusive.
async fn bind_loopback() -> Option<TcpListener> {
    let mut last = String::new();
    for attempt in 0..100u32 {
        match TcpListener::bind("127.0.0.1:0").await {
            Ok(l) => return Some(l),
            Err(e) => last = e.to_string(),
        }
        tokio::time::sleep(Duration::from_millis(50 + u64::from(attempt) * 5)).await;
    }
    eprintln!("bind_loopback: giving up after 100 attempts: {last}; open descriptors: {}", std::fs::read_dir("/proc/self/fd").map(|d| d.count()).unwrap_or(0));
    None
}

async fn reserve_port() -> Option<ReservedPort> {
    for attempt in 0..100u32 {
        if let Some(r) = ReservedPort::new() {
            return Some(r);
        }
        tokio::time::sleep(Duration::from_millis(50 + u64::from(attempt) * 5)).await;
    }
    None
}

async fn start_http(slot: Slot, script: Arc<Mutex<HttpScript>>, log: Log) -> Option<Mock> {
    let refused = script.lock().map(|g| g.beh == HttpBeh::Refused).unwrap_or(false);
    if refused {
        let r = reserve_port().await?;
        return Some(Mock { port: r.port, task: None, _reserved: Some(r) });
    }
    let listener = bind_loopback().await?;
    start_http_on(listener, slot, script, log)
}

/// HTTP mock on a listener that is already bound (the port had to be known before the runtime existed).
fn start_http_on(listener: TcpListener, slot: Slot, script: Arc<Mutex<HttpScript>>, log: Log) -> Option<Mock> {
    let port = listener.local_addr().ok()?.port();
    let task = tokio::spawn(async move {
        let mut set = tokio::task::JoinSet::new();
        loop {
            tokio::select! {
                r = listener.accept() => {
                    if let Ok((s, _)) = r {
                        let sc = script.lock().map(|g| g.clone()).unwrap_or_else(|e| e.into_inner().clone());
                        set.spawn(serve_http(s, slot, sc, log.clone()));
                    }
                }
                Some(_) = set.join_next(), if !set.is_empty() => {}
            }
        }
    });
    Some(Mock { port, task: Some(task), _reserved: None })
}

async fn start_tcp(script: Arc<Mutex<TcpScript>>, log: Log, segments_written: Arc<AtomicU64>) -> Option<Mock> {
    let refused = script.lock().map(|g| g.beh == TcpBeh::Refused).unwrap_or(false);
    if refused {
        let r = reserve_port().await?;
        return Some(Mock { port: r.port, task: None, _reserved: Some(r) });
    }
    let listener = bind_loopback().await?;
    start_tcp_on(listener, script, log, segments_written)
}

fn start_tcp_on(listener: TcpListener, script: Arc<Mutex<TcpScript>>, log: Log, segments_written: Arc<AtomicU64>) -> Option<Mock> {
    let port = listener.local_addr().ok()?.port();
    let task = tokio::spawn(async move {
        let mut set = tokio::task::JoinSet::new();
        loop {
            tokio::select! {
                r = listener.accept() => {
                    if let Ok((s, _)) = r {
                        let sc = script.lock().map(|g| g.clone()).unwrap_or_else(|e| e.into_inner().clone());
                        set.spawn(serve_tcp(s, sc, log.clone(), Arc::clone(&segments_written)));
                    }
                }
                Some(_) = set.join_next(), if !set.is_empty() => {}
            }
        }
    });
    Some(Mock { port, task: Some(task), _reserved: None })
}

// ------------------------------------------------------------------ scenarios

/// Configuration dimensions of a scenario beyond the behaviours of the three endpoints.
#[derive(Clone, Copy, Debug, PartialEq, Eq)]
struct Opt {
    /// permitted TACT protocols: bit 0 = HTTPS slot configured, bit 1 = HTTP slot configured
    /// (an empty URL in `ClientConfig` removes the protocol from the chain)
    permit: u8,
    /// `ribbit_url` written as `host:port` instead of `tcp://host:port`
    bare_ribbit: bool,
    /// endpoint variant of the class (see `EpClass::endpoint_variant`)
    epv: u8,
    /// the cache already holds bytes that are not an answer under the endpoint's key
    poison: bool,
    /// segmentation runs: additionally call a `RibbitClient` entry point directly (1 query, 2 query_v1_mime, 3 query_raw, 4 query_tcp_only)
    direct: u8,
}

impl Default for Opt {
    fn default() -> Self {
        Self { permit: 3, bare_ribbit: false, epv: 0, poison: false, direct: 0 }
    }
}

const POISON: &[u8] = b"\x00\x01 these bytes are not a version answer \xff\xfe|##\n\n";

#[derive(Clone, Debug)]
struct Scenario {
    class: EpClass,
    https: HttpBeh,
    http: HttpBeh,
    tcp: TcpBeh,
    splits: Vec<usize>,
    uniq: u64,
    disk: bool,
    rows: usize,
    opt: Opt,
}

impl Scenario {
    fn to_json(&self) -> Value {
        json!({"kind": "matrix", "class": self.class.name(), "https": self.https.code(), "http": self.http.code(), "tcp": self.tcp.code(), "splits": self.splits, "uniq": self.uniq, "disk": self.disk, "rows": self.rows,
            "permit": self.opt.permit, "bare_ribbit": self.opt.bare_ribbit, "epv": self.opt.epv, "poison": self.opt.poison, "direct": self.opt.direct, "endpoint": self.endpoint()})
    }
    fn from_json(v: &Value) -> Option<Self> {
        Some(Self {
            class: EpClass::parse(v.get("class")?.as_str()?)?,
            https: HttpBeh::parse(v.get("https")?.as_str()?)?,
            http: HttpBeh::parse(v.get("http")?.as_str()?)?,
            tcp: TcpBeh::parse(v.get("tcp")?.as_str()?)?,
            splits: v.get("splits")?.as_array()?.iter().filter_map(|x| x.as_u64().map(|n| n as usize)).collect(),
            uniq: v.get("uniq")?.as_u64()?,
            disk: v.get("disk")?.as_bool()?,
            rows: v.get("rows")?.as_u64()? as usize,
            opt: Opt {
                permit: v.get("permit").and_then(Value::as_u64).map_or(3, |n| n as u8),
                bare_ribbit: v.get("bare_ribbit").and_then(Value::as_bool).unwrap_or(false),
                epv: v.get("epv").and_then(Value::as_u64).map_or(0, |n| n as u8),
                poison: v.get("poison").and_then(Value::as_bool).unwrap_or(false),
                direct: v.get("direct").and_then(Value::as_u64).map_or(0, |n| n as u8),
            },
        })
    }
    fn endpoint(&self) -> String {
        self.class.endpoint_variant(self.opt.epv)
    }
    fn permits(&self, slot: Slot) -> bool {
        match slot {
            Slot::Https => self.opt.permit & 1 != 0,
            Slot::Http => self.opt.permit & 2 != 0,
            Slot::Tcp => true,
        }
    }
    fn hash(&self) -> u64 {
        fnv64(self.to_json().to_string().replace(&format!("\"uniq\":{}", self.uniq), "").as_bytes())
    }
    fn stalls(&self) -> bool {
        self.https.stalls() || self.http.stalls() || self.tcp == TcpBeh::Stall
    }
}

#[derive(Clone, Debug, PartialEq, Eq)]
enum QR {
    Ok(String),
    Err(String),
    Panic(String),
}

impl QR {
    fn short(&self) -> String {
        let s = match self {
            QR::Ok(p) => format!("Ok({p})"),
            QR::Err(e) => format!("Err({e})"),
            QR::Panic(p) => format!("PANIC({p})"),
        };
        if s.len() > 400 { format!("{}…", &s[..s.char_indices().take_while(|(i, _)| *i < 400).last().map_or(0, |(i, _)| i)]) } else { s }
    }
}

async fn do_query(client: &Arc<RibbitTactClient>, endpoint: &str) -> QR {
    let c = Arc::clone(client);
    let ep = endpoint.to_string();
    let h = tokio::spawn(async move { c.query(&ep).await.map(|d| proj(&d)).map_err(|e| format!("{e:?}")) });
    match h.await {
        Ok(Ok(p)) => QR::Ok(p),
        Ok(Err(e)) => QR::Err(e),
        Err(je) => {
            if je.is_panic() {
                let p = je.into_panic();
                let msg = p.downcast_ref::<&str>().map(|s| (*s).to_string()).or_else(|| p.downcast_ref::<String>().cloned()).unwrap_or_else(|| "<panic>".into());
                QR::Panic(msg)
            } else {
                QR::Err("harness: query task cancelled".into())
            }
        }
    }
}

#[derive(Clone, Debug, PartialEq, Eq)]
enum CacheState {
    Absent,
    Holds(String),
    Unparseable(usize),
    Error(String),
}

/// Whether the client keeps the answer for endpoint E under the cache key `api/ribbit/E` (the key named in the
/// property's anchors). The statement does not fix the key, so this is CALIBRATED once per run by observation
/// (`calibrate_key_format`); when the client uses another key, the sub-checks that look into the cache directly
/// (pre-loading, inspecting what a query stored) are skipped and counted — they would otherwise judge a key nobody uses.
static KEY_FORMAT_KNOWN: std::sync::atomic::AtomicBool = std::sync::atomic::AtomicBool::new(false);

fn cache_key(endpoint: &str) -> Option<String> {
    if KEY_FORMAT_KNOWN.load(Ordering::Relaxed) { Some(format!("api/ribbit/{endpoint}")) } else { None }
}

async fn calibrate_key_format() -> Result<bool, String> {
    let sc = Scenario { class: EpClass::Versions, https: HttpBeh::Valid(Shape::Plain), http: HttpBeh::Valid(Shape::Plain), tcp: TcpBeh::ValidV2(Shape::Plain), splits: vec![], uniq: 999_983, disk: false, rows: 2, opt: Opt::default() };
    let rig = build_rig(&sc, Duration::from_secs(600), None).await?;
    let client = new_client(&rig.cfg)?;
    let ep = EpClass::Versions.endpoint();
    let r = do_query(&client, ep).await;
    let held = match client.cache().get(&format!("api/ribbit/{ep}")) {
        Ok(Some(bytes)) => <BpsvDocument as CascFormat>::parse(&bytes).ok().map(|d| proj(&d)),
        _ => None,
    };
    let known = matches!((&r, &held), (QR::Ok(p), Some(c)) if p == c);
    drop(client);
    drop(rig);
    Ok(known)
}

fn cache_state(client: &RibbitTactClient, endpoint: &str) -> CacheState {
    let Some(key) = cache_key(endpoint) else { return CacheState::Error("cache key format not recognised: direct inspection skipped".into()) };
    match client.cache().get(&key) {
        Ok(None) => CacheState::Absent,
        Ok(Some(bytes)) => match <BpsvDocument as CascFormat>::parse(&bytes) {
            Ok(d) => CacheState::Holds(proj(&d)),
            Err(_) => CacheState::Unparseable(bytes.len()),
        },
        Err(e) => CacheState::Error(e.to_string()),
    }
}

struct Rig {
    log: Log,
    https_script: Arc<Mutex<HttpScript>>,
    http_script: Arc<Mutex<HttpScript>>,
    tcp_script: Arc<Mutex<TcpScript>>,
    _mocks: Vec<Mock>,
    segments_written: Arc<AtomicU64>,
    cfg: ClientConfig,
    /// expected projection of the well-formed answer per slot (None when the slot has none)
    expect: [Option<String>; 3],
    tcp_port: u16,
}

fn http_body(beh: &HttpBeh, class: EpClass, slot: Slot, uniq: u64, generation: u32, rows: usize) -> Vec<u8> {
    match beh {
        HttpBeh::Valid(shape) => bpsv_text(class, slot, uniq, generation, *shape, rows).into_bytes(),
        HttpBeh::Malformed(v) => malformed_body(*v, uniq),
        // the body that is cut / stalled half-way is itself valid: only the transport fails
        HttpBeh::CloseMidBody | HttpBeh::ResetMidBody | HttpBeh::StallMidBody | HttpBeh::Garbled(_) => bpsv_text(class, slot, uniq, generation, Shape::Plain, rows.max(3)).into_bytes(),
        _ => Vec::new(),
    }
}

async fn build_rig(sc: &Scenario, ttl: Duration, cache_dir: Option<PathBuf>) -> Result<Rig, String> {
    build_rig_ttls(sc, [ttl, ttl, ttl], cache_dir).await
}

/// `ttls` = the three time-to-live fields of `CacheConfig` in the order ribbit_ttl, cdn_ttl, config_ttl
async fn build_rig_ttls(sc: &Scenario, ttls: [Duration; 3], cache_dir: Option<PathBuf>) -> Result<Rig, String> {
    let log = Log::new();
    let hb = http_body(&sc.https, sc.class, Slot::Https, sc.uniq, 0, sc.rows);
    let pb = http_body(&sc.http, sc.class, Slot::Http, sc.uniq, 0, sc.rows);
    let tp = tcp_payload(&sc.tcp, sc.class, sc.uniq, 0, sc.rows);
    let mut expect: [Option<String>; 3] = [None, None, None];
    if sc.https.class() == Class::Good {
        expect[0] = Some(ref_http(&hb).ok_or("harness: valid https body does not parse")?);
    }
    if sc.http.class() == Class::Good {
        expect[1] = Some(ref_http(&pb).ok_or("harness: valid http body does not parse")?);
    }
    let tref = ref_tcp(&tp);
    if sc.tcp.class() == Class::Good {
        expect[2] = Some(tref.ok_or("harness: valid tcp payload does not parse")?);
    } else if tref.is_some() && sc.tcp != TcpBeh::Refused {
        return Err("harness: a payload meant to be malformed/truncated parses".into());
    }
    let https_script = Arc::new(Mutex::new(HttpScript { beh: sc.https.clone(), body: hb }));
    let http_script = Arc::new(Mutex::new(HttpScript { beh: sc.http.clone(), body: pb }));
    let tcp_script = Arc::new(Mutex::new(TcpScript { beh: sc.tcp.clone(), payload: tp, splits: sc.splits.clone() }));
    let segments_written = Arc::new(AtomicU64::new(0));
    let m0 = start_http(Slot::Https, Arc::clone(&https_script), log.clone()).await.ok_or("harness: cannot bind https mock")?;
    let m1 = start_http(Slot::Http, Arc::clone(&http_script), log.clone()).await.ok_or("harness: cannot bind http mock")?;
    let m2 = start_tcp(Arc::clone(&tcp_script), log.clone(), Arc::clone(&segments_written)).await.ok_or("harness: cannot bind tcp mock")?;
    let cfg = ClientConfig {
        tact_https_url: if sc.permits(Slot::Https) { format!("http://127.0.0.1:{}", m0.port) } else { String::new() },
        tact_http_url: if sc.permits(Slot::Http) { format!("http://127.0.0.1:{}", m1.port) } else { String::new() },
        ribbit_url: if sc.opt.bare_ribbit { format!("127.0.0.1:{}", m2.port) } else { format!("tcp://127.0.0.1:{}", m2.port) },
        cache_config: CacheConfig { cache_dir, ribbit_ttl: ttls[0], cdn_ttl: ttls[1], config_ttl: ttls[2], ..CacheConfig::default() },
        ..ClientConfig::default()
    };
    let tcp_port = m2.port;
    Ok(Rig { log, https_script, http_script, tcp_script, _mocks: vec![m0, m1, m2], segments_written, cfg, expect, tcp_port })
}

fn new_client(cfg: &ClientConfig) -> Result<Arc<RibbitTactClient>, String> {
    RibbitTactClient::new(cfg.clone()).map(Arc::new).map_err(|e| format!("harness: RibbitTactClient::new failed: {e}"))
}

struct Observed {
    result: QR,
    log: Vec<LogEntry>,
    cached_after: CacheState,
    /// (result, new requests) of an immediate second query after Ok
    second: Option<(QR, usize)>,
    /// after Err on a disk cache: query from a new client on the same directory
    new_client_after_err: Option<QR>,
    segments_written: u64,
    elapsed_ms: u64,
    /// result of the direct `RibbitClient` entry point (segmentation runs)
    direct: Option<Direct>,
    /// entries in the cache before the query / after it (ProtocolCache::len, None if it failed)
    cache_len: (Option<usize>, Option<usize>),
    /// regular files below the cache directory before / after the query (disk cache only)
    cache_files: Option<(usize, usize)>,
}

/// What a direct `RibbitClient` entry point returned.
#[derive(Clone, Debug, PartialEq, Eq)]
enum Direct {
    Doc(&'static str, QR),
    Raw(Result<Vec<u8>, String>),
    Text(Result<String, String>),
    Panic(&'static str, String),
}

fn count_files(dir: &std::path::Path) -> usize {
    let mut n = 0;
    if let Ok(rd) = std::fs::read_dir(dir) {
        for e in rd.flatten() {
            let p = e.path();
            if p.is_dir() { n += count_files(&p) } else { n += 1 }
        }
    }
    n
}

async fn run_direct(which: u8, port: u16, bare: bool, endpoint: &str) -> Direct {
    use cascette_protocol::client::RibbitClient;
    let url = if bare { format!("127.0.0.1:{port}") } else { format!("tcp://127.0.0.1:{port}") };
    let ep = endpoint.to_string();
    let name: &'static str = match which { 1 => "query", 2 => "query_v1_mime", 3 => "query_raw", _ => "query_tcp_only" };
    let h = tokio::spawn(async move {
        let c = match RibbitClient::new(url) {
            Ok(c) => c,
            Err(e) => return Direct::Doc(name, QR::Err(format!("RibbitClient::new: {e:?}"))),
        };
        match which {
            1 => Direct::Doc(name, match c.query(&ep).await { Ok(d) => QR::Ok(proj(&d)), Err(e) => QR::Err(format!("{e:?}")) }),
            2 => Direct::Doc(name, match c.query_v1_mime(&ep).await { Ok(d) => QR::Ok(proj(&d)), Err(e) => QR::Err(format!("{e:?}")) }),
            3 => Direct::Raw(c.query_raw(&ep).await.map_err(|e| format!("{e:?}"))),
            _ => Direct::Text(c.query_tcp_only(&ep).await.map_err(|e| format!("{e:?}"))),
        }
    });
    match h.await {
        Ok(d) => d,
        Err(je) if je.is_panic() => {
            let p = je.into_panic();
            Direct::Panic(name, p.downcast_ref::<&str>().map(|s| (*s).to_string()).or_else(|| p.downcast_ref::<String>().cloned()).unwrap_or_else(|| "<panic>".into()))
        }
        Err(_) => Direct::Doc(name, QR::Err("harness: task cancelled".into())),
    }
}

async fn run_matrix_scenario(sc: &Scenario) -> Result<Observed, String> {
    let dir = if sc.disk { Some(tempfile::tempdir().map_err(|e| format!("harness: tempdir: {e}"))?) } else { None };
    let rig = build_rig(sc, Duration::from_secs(600), dir.as_ref().map(|d| d.path().to_path_buf())).await?;
    let client = new_client(&rig.cfg)?;
    let ep_string = sc.endpoint();
    let ep = ep_string.as_str();
    if sc.opt.poison {
        if let Some(key) = cache_key(ep) {
            client.cache().store_with_ttl(&key, POISON, Duration::from_secs(600)).map_err(|e| format!("harness: cannot pre-load the cache: {e}"))?;
        }
    }
    let len_before = client.cache().len().ok();
    let files_before = dir.as_ref().map(|d| count_files(d.path()));
    let t0 = Instant::now();
    let result = do_query(&client, ep).await;
    let elapsed_ms = t0.elapsed().as_millis() as u64;
    let log = rig.log.snapshot();
    let cached_after = cache_state(&client, ep);
    let cache_len = (len_before, client.cache().len().ok());
    let cache_files = files_before.zip(dir.as_ref().map(|d| count_files(d.path())));
    let mut second = None;
    let mut new_client_after_err = None;
    match &result {
        QR::Ok(_) => {
            let before = rig.log.len();
            let r2 = do_query(&client, ep).await;
            second = Some((r2, rig.log.len() - before));
        }
        QR::Err(_) if sc.disk && !sc.stalls() => {
            let c2 = new_client(&rig.cfg)?;
            new_client_after_err = Some(do_query(&c2, ep).await);
        }
        _ => {}
    }
    let segments_written = rig.segments_written.load(Ordering::Relaxed);
    let direct = if sc.opt.direct != 0 { Some(run_direct(sc.opt.direct, rig.tcp_port, sc.opt.bare_ribbit, ep).await) } else { None };
    drop(client);
    drop(rig);
    Ok(Observed { result, log, cached_after, second, new_client_after_err, segments_written, elapsed_ms, direct, cache_len, cache_files })
}

// ------------------------------------------------------------------ oracle (decision table from the statement)

struct EpView {
    slot: Slot,
    class: Class,
    /// false for "refused" (no listener, so contact cannot be observed)
    observable: bool,
    first_seq: Option<u64>,
    expect: Option<String>,
    family: String,
    code: String,
}

type Verdict = Option<(String, String)>;

/// Order is a prefix of [HTTPS, HTTP, TCP]; move on only after a transient
/// failure; a definitive refusal stops; Ok = first well-formed answer in chain
/// order; Err only if every permitted protocol failed or a definitive refusal
/// occurred. After a malformed body both stopping and moving on are accepted.
fn judge_chain(eps: &[EpView], result: &QR) -> Verdict {
    // order of first contact
    let mut last_seq: Option<u64> = None;
    for ep in eps {
        if let Some(s) = ep.first_seq {
            if last_seq.is_some_and(|l| s < l) {
                return Some(("C13|fallback|contact-order-is-not-https-http-tcp".into(), format!("{} was first contacted before an earlier protocol of the chain", ep.slot.name())));
            }
            last_seq = Some(s);
        }
    }
    let ok_proj = match result {
        QR::Ok(p) => Some(p.as_str()),
        _ => None,
    };
    let mut prev: Option<&EpView> = None;
    // true while the chain may legitimately have stopped at an earlier malformed
    // body (the statement leaves that open) and nothing observed since says it moved on
    let mut stop_allowed = false;
    for (i, ep) in eps.iter().enumerate() {
        let contacted = ep.first_seq.is_some();
        let later_contacted = eps[i + 1..].iter().find(|e| e.first_seq.is_some());
        if ep.observable && !contacted {
            if let Some(l) = later_contacted {
                return Some((format!("C13|fallback|skipped-{}-but-contacted-{}", ep.slot.name(), l.slot.name()), "an endpoint of the chain was skipped".into()));
            }
            return match prev {
                Some(p) if p.class == Class::Transient && !stop_allowed => Some((format!("C13|fallback|did-not-move-on-after-transient-failure|{}|{}", p.slot.name(), p.family), format!("{} failed transiently ({}) but {} was never contacted", p.slot.name(), p.code, ep.slot.name()))),
                Some(_) => {
                    // stopped after a malformed body: allowed, but then the query must fail
                    ok_proj.map(|_| ("C13|fallback|ok-although-chain-stopped-without-well-formed-answer".to_string(), "Ok returned although no contacted endpoint gave a well-formed answer".to_string()))
                }
                None => {
                    if ep.class == Class::Good || ok_proj.is_some() {
                        Some((format!("C13|fallback|first-endpoint-{}-never-contacted", ep.slot.name()), "the first permitted protocol was not contacted on a cold cache".into()))
                    } else {
                        None
                    }
                }
            };
        }
        if contacted {
            stop_allowed = false; // the chain demonstrably reached this endpoint
        }
        if later_contacted.is_none() && stop_allowed && !contacted {
            // unobservable (refused) endpoint behind a malformed body, nothing contacted afterwards:
            // the chain may have stopped before it; only "never Ok" can be judged
            return ok_proj.map(|_| ("C13|fallback|ok-although-chain-stopped-without-well-formed-answer".to_string(), "Ok returned although no contacted endpoint gave a well-formed answer".to_string()));
        }
        match ep.class {
            Class::Good => {
                if let Some(l) = later_contacted {
                    return Some((format!("C13|fallback|contacted-{}-after-well-formed-answer-from-{}", l.slot.name(), ep.slot.name()), "a later protocol was contacted although an earlier one answered".into()));
                }
                return match result {
                    QR::Ok(p) if Some(p) == ep.expect.as_ref() => None,
                    QR::Ok(_) => Some((format!("C13|fallback|ok-is-not-the-first-well-formed-answer|{}|{}", ep.slot.name(), ep.family), format!("returned document differs from the well-formed answer of {}", ep.slot.name()))),
                    _ => Some((format!("C13|fallback|err-although-{}-gave-well-formed-answer|{}", ep.slot.name(), ep.family), "query failed although the endpoint reached in chain order answered well-formed".into())),
                };
            }
            Class::Definitive => {
                if let Some(l) = later_contacted {
                    return Some((format!("C13|fallback|moved-on-after-definitive-refusal|{}|{}", ep.slot.name(), ep.code), format!("{} was contacted after {} refused definitively", l.slot.name(), ep.slot.name())));
                }
                return ok_proj.map(|_| (format!("C13|fallback|ok-after-definitive-refusal|{}", ep.slot.name()), "Ok returned although the chain had to stop at a definitive refusal".to_string()));
            }
            Class::Transient | Class::Malformed => {
                if ep.class == Class::Malformed {
                    stop_allowed = true;
                }
                prev = Some(ep);
            }
        }
    }
    // every permitted protocol failed
    ok_proj.map(|_| ("C13|fallback|ok-although-every-protocol-failed-or-was-malformed".to_string(), "Ok returned although no endpoint gave a well-formed answer (malformed answer accepted?)".to_string()))
}

fn views(sc: &Scenario, expect: &[Option<String>; 3], log: &[LogEntry]) -> Vec<EpView> {
    let first = |slot: Slot| log.iter().filter(|e| e.slot == slot).map(|e| e.seq).min();
    let mut v = Vec::new();
    // the chain consists of the PERMITTED protocols only (an empty URL removes a TACT protocol)
    if !sc.class.tcp_only() && sc.permits(Slot::Https) {
        v.push(EpView { slot: Slot::Https, class: sc.https.class(), observable: sc.https != HttpBeh::Refused, first_seq: first(Slot::Https), expect: expect[0].clone(), family: sc.https.family(), code: sc.https.code() });
    }
    if !sc.class.tcp_only() && sc.permits(Slot::Http) {
        v.push(EpView { slot: Slot::Http, class: sc.http.class(), observable: sc.http != HttpBeh::Refused, first_seq: first(Slot::Http), expect: expect[1].clone(), family: sc.http.family(), code: sc.http.code() });
    }
    v.push(EpView { slot: Slot::Tcp, class: sc.tcp.class(), observable: sc.tcp != TcpBeh::Refused, first_seq: first(Slot::Tcp), expect: expect[2].clone(), family: sc.tcp.family(), code: sc.tcp.code() });
    v
}

fn expectations(sc: &Scenario) -> Result<[Option<String>; 3], String> {
    let mut expect: [Option<String>; 3] = [None, None, None];
    if sc.https.class() == Class::Good {
        expect[0] = ref_http(&http_body(&sc.https, sc.class, Slot::Https, sc.uniq, 0, sc.rows));
    }
    if sc.http.class() == Class::Good {
        expect[1] = ref_http(&http_body(&sc.http, sc.class, Slot::Http, sc.uniq, 0, sc.rows));
    }
    if sc.tcp.class() == Class::Good {
        expect[2] = ref_tcp(&tcp_payload(&sc.tcp, sc.class, sc.uniq, 0, sc.rows));
    }
    for (i, c) in [sc.https.class(), sc.http.class(), sc.tcp.class()].iter().enumerate() {
        if *c == Class::Good && expect[i].is_none() {
            return Err("harness: a valid document does not parse with the reference".into());
        }
    }
    Ok(expect)
}

fn judge_matrix(ctx: &Ctx, sc: &Scenario, obs: &Observed) {
    let Ok(expect) = expectations(sc) else {
        ctx.inconclusive("harness: reference parse of a valid document failed");
        return;
    };
    let eps = views(sc, &expect, &obs.log);
    let cache_kind = if sc.disk { "disk" } else { "memory" };
    let detail = |extra: Value| {
        json!({
            "scenario": sc.to_json(),
            "result": obs.result.short(),
            "request_log": obs.log.iter().map(|e| format!("#{} {} {}", e.seq, e.slot.name(), e.what)).collect::<Vec<_>>(),
            "cache_after": format!("{:?}", obs.cached_after).chars().take(300).collect::<String>(),
            "second_query": obs.second.as_ref().map(|(r, n)| json!({"result": r.short(), "new_requests": n})),
            "extra": extra,
        })
    };
    if let QR::Panic(msg) = &obs.result {
        ctx.violation("C13|query|panic", "RibbitTactClient::query panicked", detail(json!({"panic": msg})));
        return;
    }
    // TCP-only endpoints must not touch the TACT mocks
    if sc.class.tcp_only() && obs.log.iter().any(|e| e.slot != Slot::Tcp) {
        ctx.violation("C13|fallback|tcp-only-endpoint-contacted-tact", "a TCP-only endpoint caused an HTTP request", detail(json!({})));
    }
    // a protocol whose URL is empty is not permitted: its mock must never see a request
    for slot in [Slot::Https, Slot::Http] {
        if !sc.permits(slot) && obs.log.iter().any(|e| e.slot == slot) {
            ctx.violation(&format!("C13|fallback|contacted-protocol-that-is-not-permitted|{}", slot.name()), "a protocol that the configuration does not permit was contacted", detail(json!({})));
        }
    }
    if let Some((sig, summary)) = judge_chain(&eps, &obs.result) {
        // same decision table; the configuration class is part of the signature only when it is not the default chain
        let sig = if sc.opt.permit == 3 || sc.class.tcp_only() { sig } else { format!("{sig}|chain-{}", match sc.opt.permit { 1 => "https+tcp", 2 => "http+tcp", _ => "tcp-only-config" }) };
        let sig = if sc.opt.poison { format!("{sig}|unparseable-bytes-in-cache") } else { sig };
        ctx.violation(&sig, &summary, detail(json!({})));
    }
    ctx.obs(&format!("config.chain.{}", if sc.class.tcp_only() { "tcp-only-endpoint" } else { match sc.opt.permit { 3 => "https+http+tcp", 1 => "https+tcp", 2 => "http+tcp", _ => "tcp" } }), 1);
    ctx.obs(if sc.opt.bare_ribbit { "config.ribbit_url.host:port" } else { "config.ribbit_url.tcp://host:port" }, 1);
    ctx.obs(&format!("endpoint.variant.{}", sc.opt.epv), 1);
    if sc.opt.poison {
        ctx.obs("cache.preloaded_with_unparseable_bytes", 1);
    }
    // what got cached
    let first_failure = eps.iter().find(|e| e.class != Class::Good).map_or("none".to_string(), |e| e.family.clone());
    // nothing at all may be added to the cache by a failed query (whatever key it would use)
    if let QR::Err(_) = &obs.result {
        if let (Some(b), Some(a)) = obs.cache_len {
            ctx.obs("cache.after_failed_query.len_compared", 1);
            if a > b {
                ctx.violation(&format!("C13|cache|cache-grew-after-failed-query|{cache_kind}"), "ProtocolCache::len grew although the query failed", detail(json!({"len_before": b, "len_after": a, "first_failure": first_failure})));
            }
        }
        if let Some((b, a)) = obs.cache_files {
            ctx.obs("cache.after_failed_query.files_compared", 1);
            if a > b {
                ctx.violation("C13|cache|file-added-to-cache-directory-after-failed-query|disk", "a file appeared below the cache directory although the query failed", detail(json!({"files_before": b, "files_after": a, "first_failure": first_failure})));
            }
        }
    }
    match (&obs.result, &obs.cached_after) {
        (_, CacheState::Error(e)) => ctx.obs(&format!("cache.inspect_error.{}", e.chars().take(40).collect::<String>()), 1),
        (QR::Err(_), CacheState::Absent) => ctx.obs("cache.after_failed_query.absent", 1),
        // the harness itself put these bytes there before the query
        (QR::Err(_), CacheState::Unparseable(n)) if sc.opt.poison && *n == POISON.len() => ctx.obs("cache.after_failed_query.preloaded_bytes_still_there", 1),
        (QR::Err(_), _) => ctx.violation(&format!("C13|cache|entry-present-after-failed-query|{cache_kind}"), "the cache holds an entry for the endpoint although the query failed", detail(json!({"first_failure": first_failure}))),
        (QR::Ok(p), CacheState::Holds(c)) if p == c => ctx.obs("cache.after_ok.holds_returned_answer", 1),
        (QR::Ok(_), CacheState::Holds(_)) => ctx.violation(&format!("C13|cache|cached-answer-differs-from-returned-answer|{cache_kind}"), "the cached document is not the answer that was returned", detail(json!({}))),
        (QR::Ok(_), CacheState::Unparseable(_)) => ctx.violation(&format!("C13|cache|cached-bytes-do-not-parse|{cache_kind}"), "the cache holds bytes that do not parse", detail(json!({}))),
        (QR::Ok(_), CacheState::Absent) => ctx.obs("cache.after_ok.absent", 1),
        (QR::Panic(_), _) => {}
    }
    if let (QR::Ok(p), Some((r2, new_requests))) = (&obs.result, &obs.second) {
        ctx.obs("cache.repeat_query_within_ttl", 1);
        if *new_requests > 0 {
            ctx.violation(&format!("C13|cache|network-traffic-for-unexpired-answer|{cache_kind}|same-client|immediate-repeat"), "a repeated query (TTL 600 s) caused network traffic", detail(json!({})));
        }
        if r2 != &QR::Ok(p.clone()) {
            ctx.violation(&format!("C13|cache|served-answer-differs-from-original|{cache_kind}|same-client"), "the repeated query returned something else than the first answer", detail(json!({})));
        }
    }
    if let Some(QR::Ok(_)) = &obs.new_client_after_err {
        ctx.violation("C13|cache|failed-answer-served-to-new-client|disk", "after a failed query a new client on the same cache directory returned Ok", detail(json!({})));
    }
    // statistics
    ctx.obs(&format!("outcome.{}", match &obs.result { QR::Ok(p) => format!("ok-via-{}", eps.iter().find(|e| e.expect.as_deref() == Some(p.as_str())).map_or("?", |e| e.slot.name())), QR::Err(_) => "err".into(), QR::Panic(_) => "panic".into() }), 1);
    for slot in [Slot::Https, Slot::Http, Slot::Tcp] {
        let n = obs.log.iter().filter(|e| e.slot == slot).count() as u64;
        ctx.obs(&format!("requests.{}", slot.name()), n);
        ctx.obs_max(&format!("requests.max_per_query.{}", slot.name()), n);
    }
    ctx.obs_max("scenario.max_elapsed_ms", obs.elapsed_ms);
    if obs.segments_written > 1 {
        ctx.obs("tcp.responses_sent_in_more_than_one_segment", 1);
        ctx.obs("tcp.segments_written", obs.segments_written);
    }
}

// ------------------------------------------------------------------ TCP segmentation

fn interesting_cuts(payload: &[u8]) -> Vec<usize> {
    let mut v = vec![1, payload.len().saturating_sub(1)];
    for (i, b) in payload.iter().enumerate() {
        if *b == b'\n' {
            v.push(i + 1); // right after a newline (incl. right after a blank line)
            v.push(i); // between CR and LF / before the newline
        }
    }
    v.retain(|&c| c > 0 && c < payload.len());
    v.sort_unstable();
    v.dedup();
    v
}

fn after_blank_line(payload: &[u8], cut: usize) -> bool {
    cut >= 2 && cut < payload.len() && &payload[cut - 2..cut] == b"\n\n"
}

fn judge_split(ctx: &Ctx, sc: &Scenario, obs: &Observed) {
    let payload = tcp_payload(&sc.tcp, sc.class, sc.uniq, 0, sc.rows);
    let expect = ref_tcp(&payload);
    let detail = || {
        json!({
            "scenario": {"kind": "split", "class": sc.class.name(), "https": sc.https.code(), "http": sc.http.code(), "tcp": sc.tcp.code(), "splits": sc.splits, "uniq": sc.uniq, "disk": sc.disk, "rows": sc.rows},
            "payload_len": payload.len(),
            "payload": String::from_utf8_lossy(&payload).chars().take(700).collect::<String>(),
            "expected(parse of unsplit bytes)": expect.clone().map(|p| p.chars().take(300).collect::<String>()),
            "result": obs.result.short(),
            "segments_written": obs.segments_written,
        })
    };
    ctx.obs("split.runs", 1);
    ctx.obs(&format!("split.body.{}", sc.tcp.code()), 1);
    ctx.obs("split.segments_written", obs.segments_written);
    ctx.obs_max("split.max_segments", obs.segments_written);
    if sc.splits.iter().any(|&c| after_blank_line(&payload, c)) {
        ctx.obs("split.boundary_right_after_blank_line", 1);
    }
    let body = sc.tcp.code();
    match (&expect, &obs.result) {
        (_, QR::Panic(m)) => ctx.violation("C13|query|panic", "RibbitTactClient::query panicked", json!({"panic": m, "case": detail()})),
        (Some(p), QR::Ok(q)) if p == q => ctx.obs("split.ok_equals_unsplit_parse", 1),
        (Some(_), QR::Ok(q)) => {
            let truncated = sc.splits.iter().any(|&c| c <= payload.len() && ref_tcp(&payload[..c]).as_ref() == Some(q));
            let how = if truncated { "document-truncated-at-a-segment-boundary" } else { "different-document" };
            ctx.violation(&format!("C13|ribbit-tcp|answer-depends-on-segmentation|{body}|{how}"), "the parsed answer differs from the parse of the unsplit response bytes", detail());
        }
        (Some(_), QR::Err(_)) => ctx.violation(&format!("C13|ribbit-tcp|answer-depends-on-segmentation|{body}|err-instead-of-ok"), "the split response failed although the unsplit bytes parse", detail()),
        (None, QR::Ok(_)) => ctx.violation(&format!("C13|ribbit-tcp|answer-depends-on-segmentation|{body}|ok-instead-of-err"), "the split response parsed although the unsplit bytes do not", detail()),
        (None, QR::Err(_)) => ctx.obs("split.err_equals_unsplit_parse", 1),
    }
    if sc.class.tcp_only() && obs.log.iter().any(|e| e.slot != Slot::Tcp) {
        ctx.violation("C13|fallback|tcp-only-endpoint-contacted-tact", "a TCP-only endpoint caused an HTTP request", detail());
    }
    // the same response (same segmentation) read through a RibbitClient entry point directly
    if let Some(d) = &obs.direct {
        let body = sc.tcp.family();
        let ddetail = |got: String| {
            let mut v = detail();
            v["direct_entry_point_result"] = json!(got.chars().take(400).collect::<String>());
            v
        };
        match d {
            Direct::Panic(name, msg) => ctx.violation(&format!("C13|RibbitClient::{name}|panic"), "a RibbitClient entry point panicked", ddetail(msg.clone())),
            Direct::Doc(name, r) => {
                ctx.obs(&format!("direct.{name}"), 1);
                match (&expect, r) {
                    (Some(p), QR::Ok(q)) if p == q => ctx.obs("direct.doc_equals_unsplit_parse", 1),
                    (None, QR::Err(_)) => ctx.obs("direct.err_equals_unsplit_parse", 1),
                    (Some(_), QR::Ok(q)) => ctx.violation(&format!("C13|RibbitClient::{name}|answer-depends-on-segmentation|{body}|different-document"), "the document returned by the entry point differs from the parse of the unsplit response bytes", ddetail(q.clone())),
                    (Some(_), other) => ctx.violation(&format!("C13|RibbitClient::{name}|answer-depends-on-segmentation|{body}|err-instead-of-ok"), "the entry point failed although the unsplit bytes parse", ddetail(other.short())),
                    (None, other) => ctx.violation(&format!("C13|RibbitClient::{name}|answer-depends-on-segmentation|{body}|ok-instead-of-err"), "the entry point returned a document although the unsplit bytes do not parse", ddetail(other.short())),
                }
            }
            // the raw entry points hand out the bytes of the response: exactly what the server wrote, however it was split
            Direct::Raw(r) => {
                ctx.obs("direct.query_raw", 1);
                match r {
                    Ok(b) if *b == payload => ctx.obs("direct.raw_bytes_equal_response", 1),
                    Ok(b) => ctx.violation(&format!("C13|RibbitClient::query_raw|bytes-differ-from-the-response-sent|{body}|{}", if b.len() < payload.len() && payload.starts_with(b) { "truncated" } else { "different" }), "query_raw returned other bytes than the server wrote before closing", ddetail(format!("{} bytes: {}", b.len(), String::from_utf8_lossy(b)))),
                    Err(e) => ctx.violation(&format!("C13|RibbitClient::query_raw|err-although-the-server-answered-and-closed|{body}"), "query_raw failed although the server wrote a response and closed the connection", ddetail(e.clone())),
                }
            }
            Direct::Text(r) => {
                ctx.obs("direct.query_tcp_only", 1);
                let want = String::from_utf8(payload.clone()).ok();
                match (want, r) {
                    (Some(w), Ok(t)) if w == *t => ctx.obs("direct.text_equals_response", 1),
                    (Some(w), Ok(t)) => ctx.violation(&format!("C13|RibbitClient::query_tcp_only|text-differs-from-the-response-sent|{body}|{}", if w.starts_with(t.as_str()) { "truncated" } else { "different" }), "query_tcp_only returned other text than the server wrote before closing", ddetail(t.clone())),
                    (Some(_), Err(e)) => ctx.violation(&format!("C13|RibbitClient::query_tcp_only|err-although-the-server-answered-and-closed|{body}"), "query_tcp_only failed although the server wrote a UTF-8 response and closed the connection", ddetail(e.clone())),
                    (None, _) => ctx.obs("direct.text_payload_not_utf8(not judged)", 1),
                }
            }
        }
    }
}

fn split_scenarios(ctx: &Ctx, rng: &mut Rng, uniq: &mut u64) -> Vec<Scenario> {
    let mut out = Vec::new();
    let mut coverage: Vec<Value> = Vec::new();
    let mut bodies: Vec<(EpClass, TcpBeh, usize)> = Vec::new();
    for sh in SHAPES {
        bodies.push((EpClass::Summary, TcpBeh::ValidV2(sh), 2));
    }
    bodies.push((EpClass::Certs, TcpBeh::ValidV2(Shape::InteriorBlank), 3));
    bodies.push((EpClass::Versions, TcpBeh::ValidV2(Shape::InteriorBlank), 4));
    bodies.push((EpClass::Cdns, TcpBeh::ValidV2(Shape::Plain), 7));
    for (crlf, sh) in [(true, Shape::Plain), (false, Shape::Plain), (true, Shape::InteriorBlank), (false, Shape::InteriorBlank), (false, Shape::TrailingBlank)] {
        bodies.push((EpClass::Summary, TcpBeh::ValidV1(crlf, sh), 2));
    }
    bodies.push((EpClass::Versions, TcpBeh::ValidV1(true, Shape::Plain), 3));
    bodies.push((EpClass::Summary, TcpBeh::BadChecksum, 2));
    for v in 0..3 {
        bodies.push((EpClass::Summary, TcpBeh::Malformed(v), 2));
    }
    // other V1 layouts (no / unterminated / non-checksum epilogue, multipart/mixed, text signature, no signature) and
    // V1 envelopes without a usable data part, on the TCP-only classes incl. ocsp
    for v in 0..V1_GOOD_VARIANTS.len() as u8 {
        bodies.push(([EpClass::Summary, EpClass::Ocsp, EpClass::Certs][v as usize % 3], TcpBeh::V1Layout(v % 2 == 0, v), 2));
    }
    for v in 0..V1_BAD_VARIANTS.len() as u8 {
        bodies.push((EpClass::Ocsp, TcpBeh::MalformedV1(v), 2));
    }
    let mut direct_rot: u64 = ctx.seed % 4;
    for (class, beh, rows) in bodies {
        *uniq += 1;
        let u = *uniq;
        let payload = tcp_payload(&beh, class, u, 0, rows);
        let n = payload.len();
        let mut cut_sets: Vec<Vec<usize>> = vec![vec![]];
        let exhaustive = !ctx.quick() && n <= 300;
        if exhaustive {
            cut_sets.extend((1..n).map(|c| vec![c]));
            ctx.obs("split.bodies_with_every_split_point", 1);
        } else {
            let mut singles = interesting_cuts(&payload);
            if ctx.quick() && singles.len() > 24 {
                // keep every boundary that follows a blank line, sample the rest
                let (keep, mut rest): (Vec<usize>, Vec<usize>) = singles.iter().partition(|&&c| after_blank_line(&payload, c));
                rng.shuffle(&mut rest);
                rest.truncate(24 - keep.len().min(24));
                singles = keep;
                singles.extend(rest);
            }
            for _ in 0..ctx.pick(6, 80) {
                singles.push(rng.urange(1, n - 1));
            }
            cut_sets.extend(singles.into_iter().map(|c| vec![c]));
        }
        // 2..=6 segments at generated split points (biased to newline boundaries)
        let inter = interesting_cuts(&payload);
        for _ in 0..ctx.pick(6, 40) {
            let k = rng.urange(1, 5);
            let mut cuts: Vec<usize> = (0..k).map(|_| if rng.bool() && !inter.is_empty() { *rng.pick(&inter) } else { rng.urange(1, n - 1) }).collect();
            cuts.sort_unstable();
            cuts.dedup();
            cut_sets.push(cuts);
        }
        let mut distinct: Vec<usize> = cut_sets.iter().flatten().copied().collect();
        distinct.sort_unstable();
        distinct.dedup();
        ctx.obs("split.distinct_cut_offsets", distinct.len() as u64);
        coverage.push(json!({
            "body": beh.code(), "class": class.name(), "payload_len": n, "every_split_point": exhaustive,
            "runs": cut_sets.len(), "distinct_cut_offsets": distinct.len(),
            "cuts_right_after_blank_line": distinct.iter().filter(|&&c| after_blank_line(&payload, c)).count(),
            "max_segments": cut_sets.iter().map(|c| c.len() + 1).max().unwrap_or(1),
        }));
        for cuts in cut_sets {
            direct_rot += 1;
            out.push(Scenario { class, https: HttpBeh::Refused, http: HttpBeh::Refused, tcp: beh.clone(), splits: cuts, uniq: u, disk: false, rows, opt: Opt { direct: 1 + (direct_rot % 4) as u8, bare_ribbit: direct_rot % 3 == 0, ..Opt::default() } });
        }
    }
    // slow segments: the same answer with a pause of 2.6 s (thorough also 5.2 s) between two segments — packets of one
    // response can be seconds apart on a congested link; the parsed answer must not depend on that either
    let mut slow: Vec<(EpClass, TcpBeh, usize)> = vec![
        (EpClass::Summary, TcpBeh::ValidV2(Shape::Plain), 3),
        (EpClass::Versions, TcpBeh::ValidV2(Shape::InteriorBlank), 4),
        (EpClass::Summary, TcpBeh::ValidV1(true, Shape::Plain), 2),
    ];
    if !ctx.quick() {
        slow.push((EpClass::Cdns, TcpBeh::ValidV2(Shape::Plain), 6));
        slow.push((EpClass::Certs, TcpBeh::ValidV1(false, Shape::InteriorBlank), 3));
    }
    for (class, beh, rows) in slow {
        for gap in if ctx.quick() { vec![2600usize] } else { vec![2600usize, 5200] } {
            *uniq += 1;
            let u = *uniq;
            let payload = tcp_payload(&beh, class, u, 0, rows);
            let inter = interesting_cuts(&payload);
            // cut at a line boundary in the second half, so that the first part alone is a parseable document
            let cut = inter.iter().copied().filter(|&c| c > payload.len() / 2 && c < payload.len()).min().unwrap_or(payload.len() / 2);
            out.push(Scenario { class, https: HttpBeh::Refused, http: HttpBeh::Refused, tcp: beh.clone(), splits: vec![cut, SLOW_GAP_BASE + gap], uniq: u, disk: false, rows, opt: Opt::default() });
            ctx.obs("split.slow_segment_scenarios", 1);
        }
    }
    ctx.set_extra("tcp_split_points_exercised", json!(coverage));
    out
}

// ------------------------------------------------------------------ cache expiry histories (real time)

#[derive(Clone, Copy, Debug, PartialEq, Eq)]
enum CacheMode {
    Memory,
    DiskSameClient,
    DiskNewClient,
}

impl CacheMode {
    fn name(self) -> &'static str {
        match self {
            CacheMode::Memory => "memory",
            CacheMode::DiskSameClient | CacheMode::DiskNewClient => "disk",
        }
    }
}

#[derive(Clone, Copy, Debug, PartialEq, Eq)]
enum Via {
    Https,
    HttpAfter503,
    TcpV1AfterRefused,
    TcpV2,
}

struct CacheStep {
    name: &'static str,
    client: &'static str,
    /// "within" = surely before the TTL ended, "after" = surely after, "unjudged" = too close to tell
    phase: &'static str,
    result: QR,
    new_requests: usize,
    want_generation: u32,
}

struct CacheObs {
    steps: Vec<CacheStep>,
    proj_g0: String,
    proj_g1: String,
    /// appended to the before/after-expiry signatures (histories whose distinguishing condition is the configuration)
    sig_suffix: String,
    /// [ribbit_ttl, cdn_ttl, config_ttl] in ms when the history did not use `TTL` for all three
    ttls_ms: Option<[u64; 3]>,
}

const TTL: Duration = Duration::from_millis(450);

async fn run_cache_scenario(mode: CacheMode, via: Via, class: EpClass, uniq: u64) -> Result<CacheObs, String> {
    let (https, http, tcp) = match via {
        Via::Https => (HttpBeh::Valid(Shape::Plain), HttpBeh::Valid(Shape::Plain), TcpBeh::ValidV2(Shape::Plain)),
        Via::HttpAfter503 => (HttpBeh::Status(503, None), HttpBeh::Valid(Shape::InteriorBlank), TcpBeh::ValidV2(Shape::Plain)),
        Via::TcpV1AfterRefused => (HttpBeh::Refused, HttpBeh::Refused, TcpBeh::ValidV1(true, Shape::Plain)),
        Via::TcpV2 => (HttpBeh::Refused, HttpBeh::Refused, TcpBeh::ValidV2(Shape::Plain)),
    };
    let sc = Scenario { class, https, http, tcp, splits: vec![], uniq, disk: mode != CacheMode::Memory, rows: 3, opt: Opt::default() };
    let dir = if sc.disk { Some(tempfile::tempdir().map_err(|e| format!("harness: tempdir: {e}"))?) } else { None };
    let rig = build_rig(&sc, TTL, dir.as_ref().map(|d| d.path().to_path_buf())).await?;
    let answering = if class.tcp_only() {
        Slot::Tcp
    } else {
        match via {
            Via::Https => Slot::Https,
            Via::HttpAfter503 => Slot::Http,
            _ => Slot::Tcp,
        }
    };
    let doc = |generation: u32| -> (Vec<u8>, Option<String>) {
        match answering {
            Slot::Https => {
                let b = http_body(&sc.https, class, Slot::Https, uniq, generation, sc.rows);
                let p = ref_http(&b);
                (b, p)
            }
            Slot::Http => {
                let b = http_body(&sc.http, class, Slot::Http, uniq, generation, sc.rows);
                let p = ref_http(&b);
                (b, p)
            }
            Slot::Tcp => {
                let b = tcp_payload(&sc.tcp, class, uniq, generation, sc.rows);
                let p = ref_tcp(&b);
                (b, p)
            }
        }
    };
    let (_, p0) = doc(0);
    let (b1, p1) = doc(1);
    let (proj_g0, proj_g1) = (p0.ok_or("harness: generation 0 does not parse")?, p1.ok_or("harness: generation 1 does not parse")?);
    if proj_g0 == proj_g1 {
        return Err("harness: generations are indistinguishable".into());
    }
    let ep = class.endpoint();
    let mut steps: Vec<CacheStep> = Vec::new();
    let c1 = new_client(&rig.cfg)?;

    // 1. cold query
    let t1s = Instant::now();
    let before = rig.log.len();
    let r1 = do_query(&c1, ep).await;
    let t1e = Instant::now();
    steps.push(CacheStep { name: "cold-query", client: "first-client", phase: "cold", result: r1, new_requests: rig.log.len() - before, want_generation: 0 });
    // from now on the service answers with generation 1: a wrongful fetch is visible in the value too
    match answering {
        Slot::Https => rig.https_script.lock().map_err(|_| "lock")?.body = b1,
        Slot::Http => rig.http_script.lock().map_err(|_| "lock")?.body = b1,
        Slot::Tcp => rig.tcp_script.lock().map_err(|_| "lock")?.payload = b1,
    }
    let mut last_query_end = t1e;
    let within = |end: Instant, since: Instant| if end.duration_since(since) < TTL / 3 { "within" } else { "unjudged" };

    if mode == CacheMode::DiskNewClient {
        // 3. new client on the same directory, before the TTL ends
        let c2 = new_client(&rig.cfg)?;
        let before = rig.log.len();
        let r = do_query(&c2, ep).await;
        let end = Instant::now();
        steps.push(CacheStep { name: "repeat-before-expiry", client: "new-client", phase: within(end, t1s), result: r, new_requests: rig.log.len() - before, want_generation: 0 });
        last_query_end = end;
        drop(c2);
    } else {
        // 2. same client, before the TTL ends
        let before = rig.log.len();
        let r = do_query(&c1, ep).await;
        let end = Instant::now();
        steps.push(CacheStep { name: "repeat-before-expiry", client: "same-client", phase: within(end, t1s), result: r, new_requests: rig.log.len() - before, want_generation: 0 });
        last_query_end = end;
    }
    // a wrongful refetch above would have stored generation 1 with a fresh TTL: wait 3 TTLs after the LAST query
    tokio::time::sleep(TTL * 3 + Duration::from_millis(50)).await;
    if Instant::now().duration_since(last_query_end) < TTL * 3 {
        return Err("harness: sleep returned early".into());
    }
    if mode == CacheMode::DiskNewClient {
        // 6. a newly created client on the same directory, after the TTL ended
        let c3 = new_client(&rig.cfg)?;
        let before = rig.log.len();
        let r = do_query(&c3, ep).await;
        steps.push(CacheStep { name: "query-after-expiry", client: "new-client", phase: "after", result: r, new_requests: rig.log.len() - before, want_generation: 1 });
    } else {
        // 7. same client after the TTL ended, 8. immediate repeat
        let before = rig.log.len();
        let t7s = Instant::now();
        let r = do_query(&c1, ep).await;
        steps.push(CacheStep { name: "query-after-expiry", client: "same-client", phase: "after", result: r, new_requests: rig.log.len() - before, want_generation: 1 });
        let before = rig.log.len();
        let r = do_query(&c1, ep).await;
        let end = Instant::now();
        steps.push(CacheStep { name: "repeat-after-refetch", client: "same-client", phase: within(end, t7s), result: r, new_requests: rig.log.len() - before, want_generation: 1 });
    }
    drop(c1);
    drop(rig);
    Ok(CacheObs { steps, proj_g0, proj_g1, sig_suffix: String::new(), ttls_ms: None })
}

const TTL_LONG: Duration = Duration::from_millis(1500);

/// Sliding-expiry history: fetch at t0, a hit well inside the TTL at t1, then a query at t2 with
/// t0 + TTL < t2 < t1 + TTL. The answer's time-to-live ends at t0 + TTL whatever happened at t1, so
/// the query at t2 must go to the network. Steps are judged only from measured instants.
async fn run_sliding_scenario(mode: CacheMode, via: Via, class: EpClass, uniq: u64) -> Result<CacheObs, String> {
    let (https, http, tcp) = match via {
        Via::Https => (HttpBeh::Valid(Shape::Plain), HttpBeh::Valid(Shape::Plain), TcpBeh::ValidV2(Shape::Plain)),
        Via::HttpAfter503 => (HttpBeh::Status(503, None), HttpBeh::Valid(Shape::InteriorBlank), TcpBeh::ValidV2(Shape::Plain)),
        Via::TcpV1AfterRefused => (HttpBeh::Refused, HttpBeh::Refused, TcpBeh::ValidV1(true, Shape::Plain)),
        Via::TcpV2 => (HttpBeh::Refused, HttpBeh::Refused, TcpBeh::ValidV2(Shape::Plain)),
    };
    let sc = Scenario { class, https, http, tcp, splits: vec![], uniq, disk: mode != CacheMode::Memory, rows: 3, opt: Opt::default() };
    let dir = if sc.disk { Some(tempfile::tempdir().map_err(|e| format!("harness: tempdir: {e}"))?) } else { None };
    let rig = build_rig(&sc, TTL_LONG, dir.as_ref().map(|d| d.path().to_path_buf())).await?;
    let answering = if class.tcp_only() {
        Slot::Tcp
    } else {
        match via {
            Via::Https => Slot::Https,
            Via::HttpAfter503 => Slot::Http,
            _ => Slot::Tcp,
        }
    };
    let doc = |generation: u32| -> (Vec<u8>, Option<String>) {
        match answering {
            Slot::Https => {
                let b = http_body(&sc.https, class, Slot::Https, uniq, generation, sc.rows);
                let p = ref_http(&b);
                (b, p)
            }
            Slot::Http => {
                let b = http_body(&sc.http, class, Slot::Http, uniq, generation, sc.rows);
                let p = ref_http(&b);
                (b, p)
            }
            Slot::Tcp => {
                let b = tcp_payload(&sc.tcp, class, uniq, generation, sc.rows);
                let p = ref_tcp(&b);
                (b, p)
            }
        }
    };
    let (_, p0) = doc(0);
    let (b1, p1) = doc(1);
    let (proj_g0, proj_g1) = (p0.ok_or("harness: generation 0 does not parse")?, p1.ok_or("harness: generation 1 does not parse")?);
    let ep = class.endpoint();
    let mut steps: Vec<CacheStep> = Vec::new();
    let c1 = new_client(&rig.cfg)?;
    let t0s = Instant::now();
    let before = rig.log.len();
    let r0 = do_query(&c1, ep).await;
    let t0e = Instant::now();
    steps.push(CacheStep { name: "cold-query", client: "same-client", phase: "cold", result: r0, new_requests: rig.log.len() - before, want_generation: 0 });
    match answering {
        Slot::Https => rig.https_script.lock().map_err(|_| "lock")?.body = b1,
        Slot::Http => rig.http_script.lock().map_err(|_| "lock")?.body = b1,
        Slot::Tcp => rig.tcp_script.lock().map_err(|_| "lock")?.payload = b1,
    }
    // t1: a hit at about 0.55 TTL after the store
    tokio::time::sleep(TTL_LONG * 55 / 100).await;
    let before = rig.log.len();
    let r1 = do_query(&c1, ep).await;
    let t1e = Instant::now();
    // surely before the TTL ended: the answer was stored no earlier than t0s
    let hit_phase = if t1e.duration_since(t0s) < TTL_LONG * 80 / 100 { "within" } else { "unjudged" };
    let hit_requests = rig.log.len() - before;
    steps.push(CacheStep { name: "repeat-before-expiry", client: "same-client", phase: hit_phase, result: r1, new_requests: hit_requests, want_generation: 0 });
    // t2: 0.2 TTL after the original TTL ended (the store happened no later than t0e)
    let target = t0e + TTL_LONG * 120 / 100;
    tokio::time::sleep(target.saturating_duration_since(Instant::now())).await;
    let t2s = Instant::now();
    let before = rig.log.len();
    let r2 = do_query(&c1, ep).await;
    // judged only if the hit really was a hit (otherwise a fresh TTL legitimately started at t1) and t2 is surely past t0e + TTL
    let phase = if hit_phase == "within" && hit_requests == 0 && t2s.duration_since(t0e) > TTL_LONG + Duration::from_millis(100) { "after-hit" } else { "unjudged" };
    steps.push(CacheStep { name: "query-after-original-ttl-following-a-hit", client: "same-client", phase, result: r2, new_requests: rig.log.len() - before, want_generation: 1 });
    drop(c1);
    drop(rig);
    Ok(CacheObs { steps, proj_g0, proj_g1, sig_suffix: String::new(), ttls_ms: None })
}

const TTL_FAR: Duration = Duration::from_secs(600);

/// Per-class time-to-live history: the three TTL fields of the cache configuration differ (each is either `TTL` or
/// `TTL_FAR`, `short[i]` says which). Cold query, the service switches to generation 1, a second query more than
/// 3 x `TTL` (and far less than `TTL_FAR` / 3) after the first. The answer's own time-to-live is the field the
/// configuration documents for its class (`EpClass::ttl_fields`): when every admissible field is short the second
/// query must go to the network; when every admissible field is far it must be served from the cache without
/// traffic; when the admissible fields differ the statement leaves the outcome open (recorded, not judged).
async fn run_class_ttl_scenario(mode: CacheMode, via: Via, class: EpClass, short: [bool; 3], uniq: u64) -> Result<CacheObs, String> {
    let (https, http, tcp) = match via {
        Via::Https => (HttpBeh::Valid(Shape::Plain), HttpBeh::Valid(Shape::Plain), TcpBeh::ValidV2(Shape::Plain)),
        Via::HttpAfter503 => (HttpBeh::Status(503, None), HttpBeh::Valid(Shape::InteriorBlank), TcpBeh::ValidV2(Shape::Plain)),
        Via::TcpV1AfterRefused => (HttpBeh::Refused, HttpBeh::Refused, TcpBeh::ValidV1(true, Shape::Plain)),
        Via::TcpV2 => (HttpBeh::Refused, HttpBeh::Refused, TcpBeh::ValidV2(Shape::Plain)),
    };
    let sc = Scenario { class, https, http, tcp, splits: vec![], uniq, disk: mode != CacheMode::Memory, rows: 3, opt: Opt::default() };
    let dir = if sc.disk { Some(tempfile::tempdir().map_err(|e| format!("harness: tempdir: {e}"))?) } else { None };
    let ttls = [0, 1, 2].map(|i| if short[i] { TTL } else { TTL_FAR });
    let rig = build_rig_ttls(&sc, ttls, dir.as_ref().map(|d| d.path().to_path_buf())).await?;
    let answering = if class.tcp_only() {
        Slot::Tcp
    } else {
        match via {
            Via::Https => Slot::Https,
            Via::HttpAfter503 => Slot::Http,
            _ => Slot::Tcp,
        }
    };
    let doc = |generation: u32| -> (Vec<u8>, Option<String>) {
        match answering {
            Slot::Https => {
                let b = http_body(&sc.https, class, Slot::Https, uniq, generation, sc.rows);
                let p = ref_http(&b);
                (b, p)
            }
            Slot::Http => {
                let b = http_body(&sc.http, class, Slot::Http, uniq, generation, sc.rows);
                let p = ref_http(&b);
                (b, p)
            }
            Slot::Tcp => {
                let b = tcp_payload(&sc.tcp, class, uniq, generation, sc.rows);
                let p = ref_tcp(&b);
                (b, p)
            }
        }
    };
    let (_, p0) = doc(0);
    let (b1, p1) = doc(1);
    let (proj_g0, proj_g1) = (p0.ok_or("harness: generation 0 does not parse")?, p1.ok_or("harness: generation 1 does not parse")?);
    if proj_g0 == proj_g1 {
        return Err("harness: generations are indistinguishable".into());
    }
    let ep = class.endpoint();
    let mut steps: Vec<CacheStep> = Vec::new();
    let c1 = new_client(&rig.cfg)?;
    let t0s = Instant::now();
    let before = rig.log.len();
    let r0 = do_query(&c1, ep).await;
    let t0e = Instant::now();
    steps.push(CacheStep { name: "cold-query", client: "same-client", phase: "cold", result: r0, new_requests: rig.log.len() - before, want_generation: 0 });
    match answering {
        Slot::Https => rig.https_script.lock().map_err(|_| "lock")?.body = b1,
        Slot::Http => rig.http_script.lock().map_err(|_| "lock")?.body = b1,
        Slot::Tcp => rig.tcp_script.lock().map_err(|_| "lock")?.payload = b1,
    }
    tokio::time::sleep(TTL * 3 + Duration::from_millis(50)).await;
    if Instant::now().duration_since(t0e) < TTL * 3 {
        return Err("harness: sleep returned early".into());
    }
    let before = rig.log.len();
    let r = do_query(&c1, ep).await;
    let end = Instant::now();
    let own = class.ttl_fields();
    let (phase, want_generation) = if own.iter().all(|&i| short[i]) {
        // started more than 3 short TTLs after the answer was stored
        ("after", 1)
    } else if own.iter().all(|&i| !short[i]) {
        // surely inside the far TTL: the answer was stored no earlier than t0s
        (if end.duration_since(t0s) < TTL_FAR / 3 { "within" } else { "unjudged" }, 0)
    } else {
        ("open", 0)
    };
    steps.push(CacheStep { name: "query-after-the-short-ttl-and-inside-the-far-ttl", client: "same-client", phase, result: r, new_requests: rig.log.len() - before, want_generation });
    drop(c1);
    drop(rig);
    Ok(CacheObs { steps, proj_g0, proj_g1, sig_suffix: format!("|ttl-fields-differ|{}", class.name()), ttls_ms: Some(ttls.map(|t| t.as_millis() as u64)) })
}

/// Outage-after-expiry history: a good answer is fetched and cached; then EVERY endpoint starts failing transiently
/// (503 / connection closed without data; refused ones stay refused); a query more than 3 TTLs later has no
/// well-formed answer to return from any protocol and nothing unexpired in the cache, so it must fail — in
/// particular it must not hand out the expired answer again.
async fn run_outage_scenario(mode: CacheMode, via: Via, class: EpClass, uniq: u64) -> Result<CacheObs, String> {
    let (https, http, tcp) = match via {
        Via::Https => (HttpBeh::Valid(Shape::Plain), HttpBeh::Valid(Shape::Plain), TcpBeh::ValidV2(Shape::Plain)),
        Via::HttpAfter503 => (HttpBeh::Status(503, None), HttpBeh::Valid(Shape::InteriorBlank), TcpBeh::ValidV2(Shape::Plain)),
        Via::TcpV1AfterRefused => (HttpBeh::Refused, HttpBeh::Refused, TcpBeh::ValidV1(true, Shape::Plain)),
        Via::TcpV2 => (HttpBeh::Refused, HttpBeh::Refused, TcpBeh::ValidV2(Shape::Plain)),
    };
    let sc = Scenario { class, https, http, tcp, splits: vec![], uniq, disk: mode != CacheMode::Memory, rows: 3, opt: Opt::default() };
    let dir = if sc.disk { Some(tempfile::tempdir().map_err(|e| format!("harness: tempdir: {e}"))?) } else { None };
    let rig = build_rig(&sc, TTL, dir.as_ref().map(|d| d.path().to_path_buf())).await?;
    let answering = if class.tcp_only() {
        Slot::Tcp
    } else {
        match via {
            Via::Https => Slot::Https,
            Via::HttpAfter503 => Slot::Http,
            _ => Slot::Tcp,
        }
    };
    let p0 = match answering {
        Slot::Https => ref_http(&http_body(&sc.https, class, Slot::Https, uniq, 0, sc.rows)),
        Slot::Http => ref_http(&http_body(&sc.http, class, Slot::Http, uniq, 0, sc.rows)),
        Slot::Tcp => ref_tcp(&tcp_payload(&sc.tcp, class, uniq, 0, sc.rows)),
    };
    let proj_g0 = p0.ok_or("harness: generation 0 does not parse")?;
    let ep = class.endpoint();
    let mut steps: Vec<CacheStep> = Vec::new();
    let c1 = new_client(&rig.cfg)?;
    let before = rig.log.len();
    let r0 = do_query(&c1, ep).await;
    let t0e = Instant::now();
    steps.push(CacheStep { name: "cold-query", client: "same-client", phase: "cold", result: r0, new_requests: rig.log.len() - before, want_generation: 0 });
    // the outage begins: every endpoint that is listening now fails transiently
    {
        let mut h = rig.https_script.lock().map_err(|_| "lock")?;
        if h.beh != HttpBeh::Refused {
            h.beh = HttpBeh::Status(503, None);
        }
        let mut h = rig.http_script.lock().map_err(|_| "lock")?;
        if h.beh != HttpBeh::Refused {
            h.beh = if uniq % 2 == 0 { HttpBeh::Status(503, None) } else { HttpBeh::CloseBeforeHeaders };
        }
        let mut t = rig.tcp_script.lock().map_err(|_| "lock")?;
        t.beh = TcpBeh::CloseMid;
        t.payload = Vec::new();
    }
    tokio::time::sleep(TTL * 3 + Duration::from_millis(50)).await;
    if Instant::now().duration_since(t0e) < TTL * 3 {
        return Err("harness: sleep returned early".into());
    }
    let before = rig.log.len();
    let r = do_query(&c1, ep).await;
    steps.push(CacheStep { name: "query-after-expiry-during-an-outage-of-every-endpoint", client: "same-client", phase: "after-outage", result: r, new_requests: rig.log.len() - before, want_generation: 0 });
    drop(c1);
    drop(rig);
    Ok(CacheObs { steps, proj_g0: proj_g0.clone(), proj_g1: proj_g0, sig_suffix: String::new(), ttls_ms: None })
}

/// returns true when every step could be judged
fn judge_cache(ctx: &Ctx, mode: CacheMode, via: Via, class: EpClass, obs: &CacheObs) -> bool {
    let mut all_judged = true;
    let detail = |step: &CacheStep| {
        json!({
            "scenario": {"kind": "cache", "mode": format!("{mode:?}"), "via": format!("{via:?}"), "class": class.name(), "ttl_ms": TTL.as_millis() as u64, "ribbit_cdn_config_ttl_ms": obs.ttls_ms},
            "failing_step": step.name,
            "history": obs.steps.iter().map(|s| json!({"step": s.name, "client": s.client, "phase": s.phase, "new_requests": s.new_requests, "result": s.result.short(), "wanted_generation": s.want_generation})).collect::<Vec<_>>(),
            "replay": "re-run the tier with the same seed (real-time history)",
        })
    };
    let m = mode.name();
    let sfx = obs.sig_suffix.as_str();
    for s in &obs.steps {
        let want = if s.want_generation == 0 { &obs.proj_g0 } else { &obs.proj_g1 };
        if let QR::Panic(msg) = &s.result {
            ctx.violation("C13|query|panic", "RibbitTactClient::query panicked", json!({"panic": msg, "case": detail(s)}));
            continue;
        }
        match s.phase {
            "cold" => {
                if s.result != QR::Ok(want.clone()) || s.new_requests == 0 {
                    ctx.violation(&format!("C13|cache|cold-query-did-not-fetch-the-answer|{m}"), "first query on an empty cache did not return the served answer", detail(s));
                }
            }
            "within" => {
                ctx.obs(&format!("cache.judged.before-expiry.{m}.{}", s.client), 1);
                if s.new_requests > 0 {
                    ctx.violation(&format!("C13|cache|network-traffic-for-unexpired-answer|{m}|{}{sfx}", s.client), "a query less than a third of the answer's time-to-live after the first one caused network traffic", detail(s));
                } else if s.result != QR::Ok(want.clone()) {
                    ctx.violation(&format!("C13|cache|served-answer-differs-from-original|{m}|{}", s.client), "the answer served from the cache differs from the original answer", detail(s));
                }
            }
            "after" => {
                ctx.obs(&format!("cache.judged.after-expiry.{m}.{}", s.client), 1);
                let stale = s.result == QR::Ok(obs.proj_g0.clone());
                if stale && s.new_requests == 0 {
                    ctx.violation(&format!("C13|cache|answer-served-after-ttl-ended|{m}|{}{sfx}", s.client), "an answer was served from the cache (no network traffic) more than 3 TTLs after it was stored", detail(s));
                } else if s.result != QR::Ok(want.clone()) {
                    ctx.violation(&format!("C13|cache|query-after-expiry-did-not-return-the-fresh-answer|{m}|{}", s.client), "after expiry the query did not return the answer now served", detail(s));
                }
            }
            "after-outage" => {
                ctx.obs(&format!("cache.judged.after-expiry-during-outage.{m}"), 1);
                ctx.obs(&format!("cache.outage.result.{}", match &s.result { QR::Ok(_) => "ok", QR::Err(_) => "err", QR::Panic(_) => "panic" }), 1);
                if s.result == QR::Ok(obs.proj_g0.clone()) {
                    ctx.violation(&format!("C13|cache|answer-served-after-ttl-ended|{m}|{}|while-every-endpoint-fails", s.client), "more than 3 TTLs after it was stored, and while every endpoint failed transiently, the expired answer was returned as a success", detail(s));
                } else if let QR::Ok(_) = &s.result {
                    ctx.violation(&format!("C13|fallback|success-although-every-permitted-protocol-failed|{m}"), "the query succeeded although no endpoint gave a well-formed answer and nothing unexpired was cached", detail(s));
                }
            }
            "open" => {
                // the documentation admits more than one TTL field for this class and they differ here: either outcome is fine
                let outcome = if s.new_requests == 0 && s.result == QR::Ok(obs.proj_g0.clone()) {
                    "served-from-cache"
                } else if s.new_requests > 0 && s.result == QR::Ok(obs.proj_g1.clone()) {
                    "refetched"
                } else {
                    "other"
                };
                ctx.obs(&format!("cache.class_ttl.open(not judged).{}.{outcome}", class.name()), 1);
                if outcome == "other" {
                    ctx.violation(&format!("C13|cache|query-is-neither-the-cached-nor-the-fresh-answer|{m}|{}{sfx}", s.client), "a repeated query returned neither the cached answer without traffic nor the answer now served", detail(s));
                }
            }
            "after-hit" => {
                ctx.obs(&format!("cache.judged.after-original-ttl-following-a-hit.{m}"), 1);
                let stale = s.result == QR::Ok(obs.proj_g0.clone());
                if stale && s.new_requests == 0 {
                    ctx.violation(&format!("C13|cache|answer-served-after-ttl-ended|{m}|{}|after-a-hit-inside-the-ttl", s.client), "an answer was served from the cache (no network traffic) after its time-to-live (counted from when it was fetched) had ended; a cache hit inside the TTL must not extend it", detail(s));
                } else if s.result != QR::Ok(want.clone()) {
                    ctx.violation(&format!("C13|cache|query-after-expiry-did-not-return-the-fresh-answer|{m}|{}", s.client), "after expiry the query did not return the answer now served", detail(s));
                }
            }
            _ => {
                all_judged = false;
                ctx.obs("cache.step_too_close_to_ttl_boundary(not judged)", 1);
            }
        }
    }
    all_judged
}

// ------------------------------------------------------------------ matrix generation

fn http_families() -> Vec<Vec<HttpBeh>> {
    vec![
        vec![HttpBeh::Valid(Shape::Plain), HttpBeh::Valid(Shape::InteriorBlank)],
        vec![HttpBeh::Status(500, None), HttpBeh::Status(502, None), HttpBeh::Status(503, None), HttpBeh::Status(504, None), HttpBeh::Status(501, None), HttpBeh::Status(507, None), HttpBeh::Status(599, None)],
        vec![HttpBeh::Status(429, None), HttpBeh::Status(429, Some(1)), HttpBeh::Status(429, Some(3600))],
        vec![HttpBeh::Status(400, None), HttpBeh::Status(403, None), HttpBeh::Status(404, None), HttpBeh::Status(401, None), HttpBeh::Status(408, None), HttpBeh::Status(410, None), HttpBeh::Status(451, None)],
        vec![HttpBeh::Malformed(0), HttpBeh::Malformed(1), HttpBeh::Malformed(2), HttpBeh::Garbled(0), HttpBeh::Garbled(1)],
        vec![HttpBeh::Refused],
        vec![HttpBeh::CloseBeforeHeaders, HttpBeh::CloseMidBody, HttpBeh::ResetMidBody],
    ]
}

fn tcp_families() -> Vec<Vec<TcpBeh>> {
    vec![
        vec![TcpBeh::ValidV2(Shape::Plain), TcpBeh::ValidV2(Shape::InteriorBlank), TcpBeh::ValidV2(Shape::TrailingBlank)],
        vec![TcpBeh::ValidV1(true, Shape::Plain), TcpBeh::ValidV1(false, Shape::Plain), TcpBeh::ValidV1(true, Shape::InteriorBlank), TcpBeh::V1Layout(true, 0), TcpBeh::V1Layout(false, 1), TcpBeh::V1Layout(true, 2), TcpBeh::V1Layout(false, 3), TcpBeh::V1Layout(true, 4), TcpBeh::V1Layout(false, 5), TcpBeh::V1Layout(true, 6), TcpBeh::V1Layout(false, 7)],
        vec![TcpBeh::BadChecksum],
        vec![TcpBeh::Malformed(0), TcpBeh::Malformed(1), TcpBeh::Malformed(2), TcpBeh::MalformedV1(0), TcpBeh::MalformedV1(1)],
        vec![TcpBeh::Refused],
        vec![TcpBeh::CloseMid, TcpBeh::ResetMid],
    ]
}

fn random_splits(rng: &mut Rng, sc: &Scenario) -> Vec<usize> {
    if sc.tcp.class() != Class::Good {
        return vec![];
    }
    let payload = tcp_payload(&sc.tcp, sc.class, sc.uniq, 0, sc.rows);
    let inter = interesting_cuts(&payload);
    let k = rng.urange(0, 5);
    let mut cuts: Vec<usize> = (0..k).map(|_| if rng.chance(2, 3) && !inter.is_empty() { *rng.pick(&inter) } else { rng.urange(1, payload.len() - 1) }).collect();
    cuts.sort_unstable();
    cuts.dedup();
    cuts
}

fn matrix_scenarios(ctx: &Ctx, rng: &mut Rng, uniq: &mut u64) -> Vec<Scenario> {
    let hf = http_families();
    let tf = tcp_families();
    let mut out = Vec::new();
    let classes = [EpClass::Versions, EpClass::Cdns, EpClass::Bgdl];
    let mut push = |rng: &mut Rng, class: EpClass, permit: u8, https: HttpBeh, http: HttpBeh, tcp: TcpBeh| {
        *uniq += 1;
        // configuration dimensions drawn per scenario: endpoint spelling, ribbit_url spelling, unparseable bytes already in the cache
        let opt = Opt { permit, bare_ribbit: rng.chance(1, 3), epv: rng.urange(0, 4) as u8, poison: rng.chance(1, 6), direct: 0 };
        let mut sc = Scenario { class, https, http, tcp, splits: vec![], uniq: *uniq, disk: rng.chance(1, 4), rows: rng.urange(1, 5), opt };
        sc.splits = random_splits(rng, &sc);
        out.push(sc);
    };
    // every assignment of behaviour families (7 x 7 x 6) x endpoint class, variant drawn from the seed
    for class in classes {
        for a in &hf {
            for b in &hf {
                for c in &tf {
                    let (x, y, z) = (rng.pick(a).clone(), rng.pick(b).clone(), rng.pick(c).clone());
                    push(rng, class, 3, x, y, z);
                }
            }
        }
    }
    if !ctx.quick() {
        // every assignment of behaviour VARIANTS, endpoint classes in rotation
        let hv: Vec<HttpBeh> = hf.iter().flatten().cloned().collect();
        let tv: Vec<TcpBeh> = tf.iter().flatten().cloned().collect();
        let mut k = 0usize;
        for a in &hv {
            for b in &hv {
                for c in &tv {
                    k += 1;
                    push(rng, classes[k % 3], 3, a.clone(), b.clone(), c.clone());
                }
            }
        }
    }
    // configurations that permit fewer protocols (empty TACT URL): https+tcp, http+tcp, tcp alone.
    // The mock of the protocol that is not permitted would answer well-formed, but must never be asked.
    let reps = ctx.pick(1, 4);
    let mut k = 0usize;
    for _ in 0..reps {
        for a in &hf {
            for c in &tf {
                for permit in [1u8, 2u8] {
                    k += 1;
                    let (x, z) = (rng.pick(a).clone(), rng.pick(c).clone());
                    let other = HttpBeh::Valid(Shape::Plain);
                    if permit == 1 { push(rng, classes[k % 3], permit, x, other, z) } else { push(rng, classes[k % 3], permit, other, x, z) }
                }
            }
        }
        for c in &tf {
            for class in classes {
                let z = rng.pick(c).clone();
                push(rng, class, 0, HttpBeh::Valid(Shape::Plain), HttpBeh::Valid(Shape::InteriorBlank), z);
            }
        }
    }
    // TCP-only endpoints: the TACT mocks would answer, but must never be asked
    let tv: Vec<TcpBeh> = tf.iter().flatten().cloned().collect();
    for class in [EpClass::Summary, EpClass::Certs, EpClass::Ocsp] {
        for c in &tv {
            for https in [HttpBeh::Valid(Shape::Plain), HttpBeh::Status(404, None)] {
                push(rng, class, 3, https, HttpBeh::Valid(Shape::Plain), c.clone());
            }
        }
    }
    out
}

fn stall_scenarios(uniq: &mut u64) -> Vec<Scenario> {
    let v = HttpBeh::Valid(Shape::Plain);
    let t = TcpBeh::ValidV2(Shape::Plain);
    let list: Vec<(EpClass, HttpBeh, HttpBeh, TcpBeh)> = vec![
        (EpClass::Versions, HttpBeh::Stall, v.clone(), t.clone()),
        (EpClass::Cdns, HttpBeh::StallMidBody, v.clone(), t.clone()),
        (EpClass::Bgdl, HttpBeh::Stall, HttpBeh::Stall, t.clone()),
        (EpClass::Versions, HttpBeh::Status(503, None), HttpBeh::StallMidBody, TcpBeh::ValidV1(true, Shape::Plain)),
        (EpClass::Versions, HttpBeh::Stall, HttpBeh::Status(404, None), t.clone()),
        (EpClass::Cdns, HttpBeh::Refused, HttpBeh::Refused, TcpBeh::Stall),
        (EpClass::Summary, v.clone(), v.clone(), TcpBeh::Stall),
        (EpClass::Versions, HttpBeh::Stall, HttpBeh::StallMidBody, TcpBeh::Stall),
        (EpClass::Bgdl, HttpBeh::Malformed(0), HttpBeh::Stall, t.clone()),
    ];
    list.into_iter()
        .map(|(class, https, http, tcp)| {
            *uniq += 1;
            Scenario { class, https, http, tcp, splits: vec![], uniq: *uniq, disk: false, rows: 2, opt: Opt::default() }
        })
        .collect()
}

/// The harness' own payloads must be what they claim to be (reference parse).
fn self_check() -> Result<(), String> {
    for class in ALL_CLASSES {
        let base = ref_http(bpsv_text(class, Slot::Http, 5, 0, Shape::Plain, 3).as_bytes()).ok_or("plain document does not parse")?;
        for sh in SHAPES {
            let t = bpsv_text(class, Slot::Http, 5, 0, sh, 3);
            if ref_http(t.as_bytes()).as_ref() != Some(&base) {
                return Err(format!("shape {} of {} does not parse to the same document", sh.name(), class.name()));
            }
            let tcp_base = ref_tcp(bpsv_text(class, Slot::Tcp, 5, 0, Shape::Plain, 3).as_bytes()).ok_or("tcp plain does not parse")?;
            for crlf in [true, false] {
                let m = v1_mime(&bpsv_text(class, Slot::Tcp, 5, 0, sh, 3), class, 5, crlf, true);
                if !is_v1_mime_response(&m) {
                    return Err("v1 payload is not detected as MIME".into());
                }
                if ref_tcp(&m).as_ref() != Some(&tcp_base) {
                    return Err(format!("V1 MIME (crlf={crlf}, {}) of {} does not parse to the wrapped document", sh.name(), class.name()));
                }
            }
        }
        if ref_tcp(&v1_mime(&bpsv_text(class, Slot::Tcp, 5, 0, Shape::Plain, 3), class, 5, true, false)).is_some() {
            return Err("bad checksum accepted by the reference".into());
        }
        let tcp_plain = ref_tcp(bpsv_text(class, Slot::Tcp, 5, 0, Shape::Plain, 3).as_bytes());
        for crlf in [true, false] {
            for v in 0..V1_GOOD_VARIANTS.len() as u8 {
                let m = tcp_payload(&TcpBeh::V1Layout(crlf, v), class, 5, 0, 3);
                match ref_tcp(&m) {
                    // the parser does not take this layout for a well-formed answer: observed, not demanded
                    None => V1_LAYOUT_REFUSED[v as usize * 2 + usize::from(crlf)].store(true, Ordering::Relaxed),
                    r if is_v1_mime_response(&m) && r == tcp_plain => {}
                    _ => return Err(format!("V1 layout variant {:?} (crlf={crlf}) of {} parses, but not to the wrapped document", V1_GOOD_VARIANTS[v as usize], class.name())),
                }
            }
        }
        for v in 0..V1_BAD_VARIANTS.len() as u8 * 2 {
            if ref_tcp(&tcp_payload(&TcpBeh::MalformedV1(v), class, 5, 0, 3)).is_some() {
                return Err(format!("malformed V1 variant {v} parses"));
            }
        }
        for b in [TcpBeh::CloseMid, TcpBeh::ResetMid, TcpBeh::Stall] {
            if ref_tcp(&tcp_payload(&b, class, 5, 0, 3)).is_some() {
                return Err("truncated payload parses".into());
            }
        }
        if ref_http(bpsv_text(class, Slot::Http, 5, 0, Shape::Plain, 3).as_bytes()) == ref_http(bpsv_text(class, Slot::Http, 5, 1, Shape::Plain, 3).as_bytes()) {
            return Err("generations indistinguishable".into());
        }
        if ref_http(bpsv_text(class, Slot::Http, 5, 0, Shape::Plain, 3).as_bytes()) == ref_http(bpsv_text(class, Slot::Https, 5, 0, Shape::Plain, 3).as_bytes()) {
            return Err("origins indistinguishable".into());
        }
    }
    for v in 0..3 {
        if ref_http(&malformed_body(v, 9)).is_some() || ref_tcp(&malformed_body(v, 9)).is_some() {
            return Err(format!("malformed body {v} parses"));
        }
    }
    Ok(())
}

// ------------------------------------------------------------------ main

#[derive(Clone, Copy, PartialEq, Eq)]
enum Kind {
    Matrix,
    Split,
}

async fn run_with_watchdog(sc: &Scenario) -> Result<Observed, String> {
    let limit = if sc.stalls() { Duration::from_secs(170) } else { Duration::from_secs(45) };
    for attempt in 0..2 {
        match tokio::time::timeout(limit, run_matrix_scenario(sc)).await {
            Ok(r) => return r,
            Err(_) if attempt == 0 && !sc.stalls() => {}
            Err(_) => return Err(format!("watchdog: scenario did not finish within {limit:?}")),
        }
    }
    Err("watchdog".into())
}

fn main() {
    // the configuration-from-environment case needs its ports in the environment before any thread exists
    let mut env_rig = ext::EnvRig::prepare();
    let ctx = Arc::new(Ctx::init("C13", "fault_enumeration"));
    ctx.set_rule("a case is one query history against three loopback mocks: (endpoint class, behaviour of HTTPS slot, HTTP slot, Ribbit TCP, TCP segment boundaries, cache kind); quick enumerates every assignment of behaviour families (7x7x6) x {versions,cdns,bgdl} with seeded variants, thorough every assignment of behaviour variants; plus TCP-only classes, segmentation runs (parse of split response == parse of unsplit bytes) and cache-expiry histories (TTL 450 ms, judged only < TTL/3 or > 3 TTL; also with the three TTL fields of the configuration set differently, each endpoint class judged against its own field); non-trivial = at least one endpoint fails / a segmentation with >= 2 segments / a cache history; distinct by hash of the scenario description");
    ctx.assume("the mocks' request logs are complete: every connection that sent at least one byte is logged with a per-scenario sequence number before any response byte is written");
    ctx.assume("well-formedness of an answer is judged by the library's own pure parsers (BpsvDocument::parse, is_v1_mime_response, parse_v1_mime_to_bpsv) applied to the unsplit bytes; the property under test is the chain, the transport loop and the cache");
    ctx.assume("TLS is out of scope: the HTTPS slot is served over plain HTTP on loopback (TactClient::new ignores its use_https flag)");

    if let Err(e) = self_check() {
        ctx.inconclusive(&format!("harness self-check failed: {e}"));
        ctx.finish();
    }
    ctx.obs("v1_layouts.taken_for_well_formed", (0..V1_GOOD_VARIANTS.len() as u8 * 2).filter(|i| !v1_layout_refused(i % 2 == 1, i / 2)).count() as u64);
    ctx.obs("v1_layouts.refused_by_the_parser(treated as malformed answers)", (0..V1_GOOD_VARIANTS.len() as u8 * 2).filter(|i| v1_layout_refused(i % 2 == 1, i / 2)).count() as u64);
    let rt = match tokio::runtime::Builder::new_multi_thread().worker_threads(16).enable_all().build() {
        Ok(rt) => rt,
        Err(e) => {
            ctx.inconclusive(&format!("cannot build runtime: {e}"));
            ctx.finish();
        }
    };

    // ---- which cache key does the client use? (observed, not assumed; see KEY_FORMAT_KNOWN)
    match rt.block_on(async { tokio::time::timeout(Duration::from_secs(60), calibrate_key_format()).await }) {
        Ok(Ok(known)) => {
            KEY_FORMAT_KNOWN.store(known, Ordering::Relaxed);
            ctx.obs(if known { "cache.key_format.api/ribbit/<endpoint>(direct inspection on)" } else { "cache.key_format.not-recognised(direct inspection sub-checks skipped)" }, 1);
        }
        Ok(Err(e)) => ctx.inconclusive(&format!("cache key calibration: {e}")),
        Err(_) => ctx.inconclusive("cache key calibration: watchdog (60 s)"),
    }

    // ---- replay of one scenario
    if let Some(d) = ctx.replay_detail() {
        let scv = d.get("scenario").or_else(|| d.get("case").and_then(|c| c.get("scenario"))).cloned().unwrap_or(Value::Null);
        let kind = scv.get("kind").and_then(Value::as_str).unwrap_or("");
        match (kind, Scenario::from_json(&scv)) {
            ("matrix" | "split", Some(sc)) => {
                let r = rt.block_on(run_with_watchdog(&sc));
                match r {
                    Ok(obs) => {
                        println!("replay: {} -> {} ; log: {:?}", sc.to_json(), obs.result.short(), obs.log.iter().map(|e| format!("#{} {}", e.seq, e.slot.name())).collect::<Vec<_>>());
                        ctx.eval_nontrivial(1);
                        ctx.nontrivial(2);
                        if kind == "split" { judge_split(&ctx, &sc, &obs) } else { judge_matrix(&ctx, &sc, &obs) }
                    }
                    Err(e) => ctx.inconclusive(&e),
                }
            }
            _ => ctx.inconclusive("cache histories are real-time: reproduce by re-running the tier with the seed stored in the replay file"),
        }
        ctx.finish();
    }

    let mut rng = ctx.rng(13);
    let mut uniq: u64 = (ctx.seed % 1000) * 1_000_000;

    // ---- cache-expiry histories first (quiet machine), all concurrently (they mostly sleep)
    {
        let mut plan: Vec<(CacheMode, Via, EpClass)> = Vec::new();
        for mode in [CacheMode::Memory, CacheMode::DiskSameClient, CacheMode::DiskNewClient] {
            for (via, class) in [
                (Via::Https, EpClass::Versions),
                (Via::Https, EpClass::Cdns),
                (Via::HttpAfter503, EpClass::Bgdl),
                (Via::HttpAfter503, EpClass::Cdns),
                (Via::TcpV1AfterRefused, EpClass::Versions),
                (Via::TcpV2, EpClass::Cdns),
                (Via::TcpV2, EpClass::Summary),
                (Via::TcpV1AfterRefused, EpClass::Certs),
            ] {
                plan.push((mode, via, class));
            }
        }
        let mut pending = plan;
        for round in 0..3 {
            if pending.is_empty() {
                break;
            }
            let handles: Vec<_> = pending
                .iter()
                .map(|&(mode, via, class)| {
                    uniq += 1;
                    let u = uniq;
                    rt.spawn(async move { (mode, via, class, tokio::time::timeout(Duration::from_secs(120), run_cache_scenario(mode, via, class, u)).await) })
                })
                .collect();
            let mut again = Vec::new();
            for h in handles {
                match rt.block_on(h) {
                    Ok((mode, via, class, Ok(Ok(obs)))) => {
                        let complete = obs.steps.iter().all(|s| s.phase != "unjudged");
                        if !complete && round < 2 {
                            // machine too slow to stay clear of the boundary: run this history again
                            again.push((mode, via, class));
                            ctx.obs("cache.history_repeated(too close to boundary)", 1);
                            continue;
                        }
                        ctx.eval_nontrivial(mix64(fnv64(b"cache"), fnv64(format!("{mode:?}{via:?}{class:?}").as_bytes())));
                        ctx.obs(&format!("cache.histories.{}", mode.name()), 1);
                        judge_cache(&ctx, mode, via, class, &obs);
                        if ctx.want_sample() && mode != CacheMode::Memory && class == EpClass::Versions && via == Via::Https {
                            ctx.sample(json!({"kind": "cache history", "mode": format!("{mode:?}"), "via": format!("{via:?}"), "class": class.name(), "steps": obs.steps.iter().map(|s| format!("{}[{}|{}] new_requests={} -> {}", s.name, s.client, s.phase, s.new_requests, s.result.short().chars().take(60).collect::<String>())).collect::<Vec<_>>()}));
                        }
                    }
                    Ok((_, _, _, Ok(Err(e)))) => ctx.inconclusive(&format!("cache history: {e}")),
                    Ok((_, _, _, Err(_))) => ctx.inconclusive("cache history: watchdog (120 s)"),
                    Err(_) => ctx.inconclusive("cache history task failed"),
                }
            }
            pending = again;
        }
        // sliding-expiry histories (a hit inside the TTL must not extend it)
        let mut pending: Vec<(CacheMode, Via, EpClass)> = vec![
            (CacheMode::Memory, Via::Https, EpClass::Versions),
            (CacheMode::Memory, Via::TcpV2, EpClass::Cdns),
            (CacheMode::DiskSameClient, Via::Https, EpClass::Bgdl),
            (CacheMode::DiskSameClient, Via::HttpAfter503, EpClass::Versions),
        ];
        for round in 0..3 {
            if pending.is_empty() {
                break;
            }
            let handles: Vec<_> = pending
                .iter()
                .map(|&(mode, via, class)| {
                    uniq += 1;
                    let u = uniq;
                    rt.spawn(async move { (mode, via, class, tokio::time::timeout(Duration::from_secs(60), run_sliding_scenario(mode, via, class, u)).await) })
                })
                .collect();
            let mut again = Vec::new();
            for h in handles {
                match rt.block_on(h) {
                    Ok((mode, via, class, Ok(Ok(obs)))) => {
                        let complete = obs.steps.iter().all(|s| s.phase != "unjudged");
                        if !complete && round < 2 {
                            again.push((mode, via, class));
                            ctx.obs("cache.history_repeated(too close to boundary)", 1);
                            continue;
                        }
                        ctx.eval_nontrivial(mix64(fnv64(b"cache-sliding"), fnv64(format!("{mode:?}{via:?}{class:?}").as_bytes())));
                        ctx.obs(&format!("cache.sliding_histories.{}", mode.name()), 1);
                        judge_cache(&ctx, mode, via, class, &obs);
                    }
                    Ok((_, _, _, Ok(Err(e)))) => ctx.inconclusive(&format!("cache history: {e}")),
                    Ok((_, _, _, Err(_))) => ctx.inconclusive("cache history: watchdog (60 s)"),
                    Err(_) => ctx.inconclusive("cache history task failed"),
                }
            }
            pending = again;
        }
    }

    // ---- per-class time-to-live histories: every assignment of {short, far} to (ribbit_ttl, cdn_ttl, config_ttl) in
    //      which the fields differ x every endpoint class; each class is judged against the field(s) documented for it
    {
        let mut pending: Vec<(CacheMode, Via, EpClass, [bool; 3])> = Vec::new();
        for bits in 1u8..7 {
            let short = [bits & 1 != 0, bits & 2 != 0, bits & 4 != 0];
            for (ci, class) in ALL_CLASSES.into_iter().enumerate() {
                let k = bits as usize + ci;
                // bit 2 separates the two assignments that put a class's own field and a given other field on opposite
                // sides, so every class that is judged more than once each way meets both cache kinds each way
                let mode = if ((bits >> 2) as usize + ci) % 2 == 0 { CacheMode::Memory } else { CacheMode::DiskSameClient };
                let via = if class.tcp_only() {
                    if k % 4 < 2 { Via::TcpV2 } else { Via::TcpV1AfterRefused }
                } else {
                    [Via::Https, Via::HttpAfter503, Via::TcpV2, Via::TcpV1AfterRefused][(k / 2) % 4]
                };
                pending.push((mode, via, class, short));
            }
        }
        for round in 0..3 {
            if pending.is_empty() {
                break;
            }
            let handles: Vec<_> = pending
                .iter()
                .map(|&(mode, via, class, short)| {
                    uniq += 1;
                    let u = uniq;
                    rt.spawn(async move { (mode, via, class, short, tokio::time::timeout(Duration::from_secs(120), run_class_ttl_scenario(mode, via, class, short, u)).await) })
                })
                .collect();
            let mut again = Vec::new();
            for h in handles {
                match rt.block_on(h) {
                    Ok((mode, via, class, short, Ok(Ok(obs)))) => {
                        let complete = obs.steps.iter().all(|s| s.phase != "unjudged");
                        if !complete && round < 2 {
                            again.push((mode, via, class, short));
                            ctx.obs("cache.history_repeated(too close to boundary)", 1);
                            continue;
                        }
                        ctx.eval_nontrivial(mix64(fnv64(b"cache-class-ttl"), fnv64(format!("{mode:?}{via:?}{class:?}{short:?}").as_bytes())));
                        ctx.obs(&format!("cache.class_ttl_histories.{}", mode.name()), 1);
                        match obs.steps.last().map(|s| s.phase) {
                            Some("after") => ctx.obs(&format!("cache.class_ttl.judged.{}.own-ttl-short", class.name()), 1),
                            Some("within") => ctx.obs(&format!("cache.class_ttl.judged.{}.own-ttl-far", class.name()), 1),
                            _ => {}
                        }
                        judge_cache(&ctx, mode, via, class, &obs);
                    }
                    Ok((_, _, _, _, Ok(Err(e)))) => ctx.inconclusive(&format!("per-class TTL history: {e}")),
                    Ok((_, _, _, _, Err(_))) => ctx.inconclusive("per-class TTL history: watchdog (120 s)"),
                    Err(_) => ctx.inconclusive("per-class TTL history task failed"),
                }
            }
            pending = again;
        }
    }

    // ---- outage-after-expiry histories (an expired answer must not come back when every endpoint fails)
    {
        let cases: Vec<(CacheMode, Via, EpClass)> = vec![
            (CacheMode::Memory, Via::Https, EpClass::Versions),
            (CacheMode::Memory, Via::TcpV2, EpClass::Summary),
            (CacheMode::DiskSameClient, Via::HttpAfter503, EpClass::Cdns),
            (CacheMode::DiskSameClient, Via::TcpV1AfterRefused, EpClass::Bgdl),
        ];
        let handles: Vec<_> = cases
            .iter()
            .map(|&(mode, via, class)| {
                uniq += 1;
                let u = uniq;
                rt.spawn(async move { (mode, via, class, tokio::time::timeout(Duration::from_secs(120), run_outage_scenario(mode, via, class, u)).await) })
            })
            .collect();
        for h in handles {
            match rt.block_on(h) {
                Ok((mode, via, class, Ok(Ok(obs)))) => {
                    ctx.eval_nontrivial(mix64(fnv64(b"cache-outage"), fnv64(format!("{mode:?}{via:?}{class:?}").as_bytes())));
                    ctx.obs(&format!("cache.outage_histories.{}", mode.name()), 1);
                    judge_cache(&ctx, mode, via, class, &obs);
                }
                Ok((_, _, _, Ok(Err(e)))) => ctx.inconclusive(&format!("outage history: {e}")),
                Ok((_, _, _, Err(_))) => ctx.inconclusive("outage history: watchdog (120 s)"),
                Err(_) => ctx.inconclusive("outage history task failed"),
            }
        }
    }

    // ---- CDN download histories (cache-then-fetch-then-store), real time as well
    ext::cdn_section(&ctx, &rt, &mut uniq);

    // ---- ProtocolCache::clear between queries, configuration from the environment, malformed endpoints, oversized response
    {
        let cases = [(false, EpClass::Versions), (true, EpClass::Cdns), (false, EpClass::Summary), (true, EpClass::Ocsp)];
        let handles: Vec<_> = cases
            .iter()
            .map(|&(disk, class)| {
                uniq += 1;
                let u = uniq;
                rt.spawn(async move { (disk, class, tokio::time::timeout(Duration::from_secs(60), ext::run_clear_case(disk, class, u)).await) })
            })
            .collect();
        for h in handles {
            match rt.block_on(h) {
                Ok((disk, class, Ok(Ok(o)))) => {
                    ctx.eval_nontrivial(mix64(fnv64(b"clear"), fnv64(format!("{disk}{class:?}").as_bytes())));
                    ext::judge_clear(&ctx, disk, class, &o);
                }
                Ok((_, _, Ok(Err(e)))) => ctx.inconclusive(&format!("clear history: {e}")),
                Ok((_, _, Err(_))) => ctx.inconclusive("clear history: watchdog (60 s)"),
                Err(_) => ctx.inconclusive("clear history task failed"),
            }
        }
        match env_rig.as_mut() {
            None => ctx.inconclusive("harness: could not bind the listeners for the from_env configuration"),
            Some(er) => {
                if let Err(e) = &er.cfg {
                    // the environment holds three well-formed URLs and three integer TTLs: a refusal is a failed query before it started
                    ctx.violation("C13|fallback|first-endpoint-https-never-contacted|config-from-env", "ClientConfig::from_env refused an environment with three well-formed URLs", json!({"error": e}));
                } else {
                    uniq += 3;
                    match rt.block_on(async { tokio::time::timeout(Duration::from_secs(60), ext::run_env_case(er, uniq - 2)).await }) {
                        Ok(Ok(o)) => {
                            ctx.eval_nontrivial(mix64(fnv64(b"from-env"), 1));
                            ext::judge_env(&ctx, &o);
                        }
                        Ok(Err(e)) => ctx.inconclusive(&format!("from_env case: {e}")),
                        Err(_) => ctx.inconclusive("from_env case: watchdog (60 s)"),
                    }
                }
            }
        }
        uniq += 1;
        match rt.block_on(async { tokio::time::timeout(Duration::from_secs(90), ext::run_invalid_endpoints(uniq)).await }) {
            Ok(Ok((sc, obs, empty))) => {
                ctx.eval_nontrivial(mix64(fnv64(b"invalid-endpoints"), 1));
                ext::judge_invalid(&ctx, &sc, &obs, empty);
            }
            Ok(Err(e)) => ctx.inconclusive(&format!("malformed-endpoint case: {e}")),
            Err(_) => ctx.inconclusive("malformed-endpoint case: watchdog (90 s)"),
        }
        uniq += 1;
        match rt.block_on(ext::run_huge(uniq)) {
            Ok(o) => {
                ctx.eval_nontrivial(mix64(fnv64(b"oversized"), 1));
                ext::judge_huge(&ctx, &o);
            }
            Err(e) => ctx.inconclusive(&format!("oversized-response case: {e}")),
        }
        uniq += 1;
        ext::sync_context_case(&ctx, &rt, uniq);
        uniq += 1;
        match rt.block_on(async { tokio::time::timeout(Duration::from_secs(60), ext::run_default_port(uniq)).await }) {
            Ok(Ok(Some((sc, r, log)))) => {
                ctx.eval_nontrivial(mix64(fnv64(b"default-port"), 1));
                ext::judge_default_port(&ctx, &sc, &r, &log);
            }
            // 127.0.0.1:1119 is taken by another process (e.g. a second instance of this check): not judged
            Ok(Ok(None)) => ctx.obs("config.ribbit_url.without_port(skipped: 127.0.0.1:1119 in use)", 1),
            Ok(Err(e)) => ctx.inconclusive(&format!("default-port case: {e}")),
            Err(_) => ctx.inconclusive("default-port case: watchdog (60 s)"),
        }
    }

    // ---- stall scenarios (thorough): started now, collected at the end
    let stall_handles: Vec<_> = if ctx.quick() {
        Vec::new()
    } else {
        stall_scenarios(&mut uniq)
            .into_iter()
            .map(|sc| {
                rt.spawn(async move {
                    let r = run_with_watchdog(&sc).await;
                    (sc, r)
                })
            })
            .collect()
    };

    // ---- matrix + segmentation scenarios
    let mut work: Vec<(Kind, Scenario)> = Vec::new();
    work.extend(matrix_scenarios(&ctx, &mut rng, &mut uniq).into_iter().map(|s| (Kind::Matrix, s)));
    work.extend(split_scenarios(&ctx, &mut rng, &mut uniq).into_iter().map(|s| (Kind::Split, s)));
    ctx.obs("scenarios.matrix_planned", work.iter().filter(|w| w.0 == Kind::Matrix).count() as u64);
    ctx.obs("scenarios.split_planned", work.iter().filter(|w| w.0 == Kind::Split).count() as u64);
    let sem = Arc::new(tokio::sync::Semaphore::new(24));
    let wall_limit = Duration::from_secs_f64(ctx.pick(80.0, 520.0) * Ctx::wall_scale());
    let started = Instant::now();
    let skipped = Arc::new(AtomicU64::new(0));
    let handles: Vec<_> = work
        .into_iter()
        .map(|(kind, sc)| {
            let sem = Arc::clone(&sem);
            let ctx = Arc::clone(&ctx);
            let skipped = Arc::clone(&skipped);
            rt.spawn(async move {
                let Ok(_permit) = sem.acquire().await else { return };
                if started.elapsed() > wall_limit {
                    skipped.fetch_add(1, Ordering::Relaxed);
                    return;
                }
                match run_with_watchdog(&sc).await {
                    Ok(obs) => {
                        let nontrivial = match kind {
                            Kind::Matrix => [sc.https.class(), sc.http.class()].iter().any(|c| *c != Class::Good) && !sc.class.tcp_only() || sc.tcp.class() != Class::Good,
                            Kind::Split => !sc.splits.is_empty(),
                        };
                        if nontrivial { ctx.eval_nontrivial(mix64(kind as u64 + 1, sc.hash())) } else { ctx.eval() }
                        match kind {
                            Kind::Matrix => {
                                ctx.obs("scenarios.matrix_run", 1);
                                ctx.obs(&format!("class.{}", sc.class.name()), 1);
                                ctx.obs(&format!("behaviour.https.{}", sc.https.family()), 1);
                                ctx.obs(&format!("behaviour.http.{}", sc.http.family()), 1);
                                ctx.obs(&format!("behaviour.tcp.{}", sc.tcp.family()), 1);
                                ctx.obs(if sc.disk { "cache_kind.disk" } else { "cache_kind.memory" }, 1);
                                judge_matrix(&ctx, &sc, &obs);
                                if ctx.want_sample() && sc.https.class() == Class::Transient && sc.http.class() == Class::Transient && sc.tcp.class() == Class::Good {
                                    ctx.sample(json!({"kind": "matrix scenario", "scenario": sc.to_json(), "result": obs.result.short().chars().take(120).collect::<String>(), "request_log": obs.log.iter().map(|e| format!("#{} {} {}", e.seq, e.slot.name(), e.what)).collect::<Vec<_>>()}));
                                }
                            }
                            Kind::Split => judge_split(&ctx, &sc, &obs),
                        }
                    }
                    Err(e) if e.starts_with("watchdog") => ctx.inconclusive(&format!("{e} ({})", sc.to_json())),
                    // no loopback port could be had for this scenario even after waiting (the machine's ephemeral ports or
                    // descriptors were used up by other jobs): the scenario is skipped; only many of them make the run inconclusive
                    Err(e) if e.starts_with("harness: cannot bind") => ctx.obs("scenarios.skipped(no loopback port available)", 1),
                    Err(e) => ctx.inconclusive(&e),
                }
            })
        })
        .collect();
    for h in handles {
        if rt.block_on(h).is_err() {
            ctx.inconclusive("a scenario task panicked in the harness");
        }
    }
    {
        let no_port = ctx.get_obs("scenarios.skipped(no loopback port available)");
        let ran = ctx.get_obs("scenarios.matrix_run");
        if no_port > 0 && no_port * 50 > ran {
            ctx.inconclusive(&format!("{no_port} scenarios could not get a loopback port ({ran} matrix scenarios ran)"));
        }
    }
    let sk = skipped.load(Ordering::Relaxed);
    if sk > 0 {
        ctx.inconclusive(&format!("{sk} scenarios not run inside the wall-clock budget"));
    }
    for h in stall_handles {
        match rt.block_on(h) {
            Ok((sc, Ok(obs))) => {
                ctx.eval_nontrivial(mix64(77, sc.hash()));
                ctx.obs("scenarios.stall_run", 1);
                ctx.obs_max("scenarios.stall_max_elapsed_ms", obs.elapsed_ms);
                judge_matrix(&ctx, &sc, &obs);
            }
            Ok((sc, Err(e))) => ctx.inconclusive(&format!("stall scenario {}: {e}", sc.to_json())),
            Err(_) => ctx.inconclusive("stall scenario task failed"),
        }
    }

    // ---- floors
    if ctx.get_obs("scenarios.matrix_run") < 100 {
        ctx.inconclusive("fewer than 100 matrix scenarios were run");
    }
    if ctx.get_obs("tcp.responses_sent_in_more_than_one_segment") + ctx.get_obs("split.runs") == 0 {
        ctx.inconclusive("no segmented TCP response was produced");
    }
    if ctx.get_obs("split.boundary_right_after_blank_line") == 0 {
        ctx.inconclusive("no segment boundary right after a blank line was exercised");
    }
    for k in ["cache.judged.before-expiry.memory.same-client", "cache.judged.after-expiry.memory.same-client", "cache.judged.before-expiry.disk.same-client", "cache.judged.after-expiry.disk.same-client", "cache.judged.before-expiry.disk.new-client", "cache.judged.after-expiry.disk.new-client"] {
        if ctx.get_obs(k) == 0 {
            ctx.inconclusive(&format!("cache phase never judged: {k}"));
        }
    }
    for class in ALL_CLASSES {
        for k in ["own-ttl-short", "own-ttl-far"] {
            if ctx.get_obs(&format!("cache.class_ttl.judged.{}.{k}", class.name())) == 0 {
                ctx.inconclusive(&format!("endpoint class {} was never judged against its own time-to-live with the other TTL fields set differently ({k})", class.name()));
            }
        }
    }
    for k in [
        "cdn.judged.inside-ttl.memory.same-client", "cdn.judged.inside-ttl.disk.same-client", "cdn.judged.inside-ttl.disk.new-client", "cdn.judged.other-key", "cdn.judged.other-type",
        "cdn.judged.after-expiry.memory.same-client", "cdn.judged.after-expiry.disk.same-client", "cdn.judged.after-expiry.disk.new-client",
        "cdn.judged.failing-server.4xx", "cdn.judged.failing-server.5xx", "cdn.judged.failing-server.closed-mid-body", "cdn.entry_point.download_archive_index", "cdn.endpoint_from_bpsv_row",
        "clear.ok", "config.from_env.queries", "endpoint.invalid.queries", "oversized_response.runs", "cache.sync_context.store_then_query", "cache.sync_context.query_then_get",
        "direct.query", "direct.query_v1_mime", "direct.query_raw", "direct.query_tcp_only",
        "config.chain.https+tcp", "config.chain.http+tcp", "config.chain.tcp", "config.ribbit_url.host:port", "cache.preloaded_with_unparseable_bytes", "cache.after_failed_query.len_compared", "cache.after_failed_query.files_compared",
    ] {
        // the three sub-workloads that look into the cache under the key `api/ribbit/<endpoint>` are skipped by design
        // when the client was observed to use another key (KEY_FORMAT_KNOWN)
        let needs_key = matches!(k, "cache.sync_context.store_then_query" | "cache.sync_context.query_then_get" | "cache.preloaded_with_unparseable_bytes");
        if ctx.get_obs(k) == 0 && !(needs_key && !KEY_FORMAT_KNOWN.load(Ordering::Relaxed)) {
            ctx.inconclusive(&format!("a sub-workload the verdict relies on never ran or was never judged: {k}"));
        }
    }
    rt.shutdown_timeout(Duration::from_secs(2));
    ctx.finish();
}
