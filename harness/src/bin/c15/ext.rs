//! C15 — sub-workloads added by the coverage-driven extension (see notes/C15.md):
//!
//!  * **server configurations** (phase C): `ServerConfig` with hostile `cdn_hosts` / `cdn_path`, taken through
//!    the server's own `ServerConfig::validate` (a rejection is recorded and the field made benign) and started
//!    the way the binary does it — `Server::new(config)?.run()` with the bind addresses of the configuration.
//!    The cdns answer must read back as the configuration says (Hosts token by token, Path / ConfigPath =
//!    the record's path or the configured default), versions / bgdl / summary as the database says;
//!  * **unknown products through the real clients** (all transports): never an answer with rows;
//!  * **the other entry points of the project's BPSV reader** (`parse_schema`, `BpsvReader::from_path`,
//!    `BpsvReader::new` over a reader that hands out a few bytes at a time) on real server replies: they must
//!    agree with the document parse and with the database.

use super::*;
use cascette_formats::bpsv::BpsvReader;
use cascette_ribbit::Server;

pub const HOSTS_CLASSES: [&str; 17] = [
    "two-hosts", "three-hosts-double-blank", "tab-separated", "pipe", "lf", "crlf", "cr", "lead-blank", "trail-blank", "empty", "blank-only", "hash-lead", "non-ascii", "long", "mime-lookalike", "boundary-lookalike", "bang",
];
pub const PATH_CLASSES: [&str; 16] = [
    "nested", "trailing-slash", "pipe", "lf", "crlf", "cr", "lead-blank", "trail-blank", "trail-tab", "empty", "blank-only", "hash-lead", "non-ascii", "long", "space-mid", "seqn-lookalike",
];

fn hostile_hosts(rng: &mut Rng, class: &str) -> String {
    let a = format!("{}.example.test", token(rng, 3, 6));
    let b = format!("{}.example.test", token(rng, 3, 6));
    match class {
        "two-hosts" => format!("{a} {b}"),
        "three-hosts-double-blank" => format!("{a}  {b}  c.example.test"),
        "tab-separated" => format!("{a}\t{b}"),
        "pipe" => format!("{a}|{b}"),
        "lf" => format!("{a}\n{b}"),
        "crlf" => format!("{a}\r\n{b}"),
        "cr" => format!("{a}\r{b}"),
        "lead-blank" => format!(" {a}"),
        "trail-blank" => format!("{a} "),
        "empty" => String::new(),
        "blank-only" => "  ".to_string(),
        "hash-lead" => format!("#{a}"),
        "non-ascii" => format!("c\u{f6}n.\u{30c6}\u{30b9}\u{30c8}.{a}"),
        "long" => {
            let mut s = String::new();
            while s.len() < 4000 {
                s.push_str(&a);
                s.push(' ');
            }
            s.trim_end().to_string()
        }
        "mime-lookalike" => format!("Content-Type: multipart/alternative {a}"),
        "boundary-lookalike" => "--RibbitBoundary--".to_string(),
        "bang" => format!("{a}!STRING:0"),
        _ => a,
    }
}

fn hostile_path(rng: &mut Rng, class: &str) -> String {
    let a = token(rng, 2, 6);
    match class {
        "nested" => format!("tpr/{a}/sub/dir"),
        "trailing-slash" => format!("tpr/{a}/"),
        "pipe" => format!("tpr/{a}|x"),
        "lf" => format!("tpr/{a}\nx"),
        "crlf" => format!("tpr/{a}\r\nx"),
        "cr" => format!("tpr/{a}\rx"),
        "lead-blank" => format!(" tpr/{a}"),
        "trail-blank" => format!("tpr/{a} "),
        "trail-tab" => format!("tpr/{a}\t"),
        "empty" => String::new(),
        "blank-only" => " ".to_string(),
        "hash-lead" => format!("#tpr/{a}"),
        "non-ascii" => format!("tpr/w\u{f6}w-\u{30c6}\u{30b9}\u{30c8}-{a}"),
        "long" => format!("tpr/{}", a.repeat(400)),
        "space-mid" => format!("tpr/{a} {a}"),
        "seqn-lookalike" => "## seqn = 7".to_string(),
        _ => format!("tpr/{a}"),
    }
}

struct RunningServer {
    tcp: SocketAddr,
    http: SocketAddr,
    run_task: tokio::task::JoinHandle<Result<(), String>>,
}

/// `Server::new(config)?.run()` on free loopback ports; ready when both ports accept.
async fn start_configured(cfg: &ServerConfig) -> Result<RunningServer, String> {
    for _attempt in 0..10 {
        let (Some(p1), Some(p2)) = (free_port(), free_port()) else { return Err("no free port".into()) };
        if p1 == p2 {
            continue;
        }
        let mut c = cfg.clone();
        c.http_bind = SocketAddr::from(([127, 0, 0, 1], p1));
        c.tcp_bind = SocketAddr::from(([127, 0, 0, 1], p2));
        let server = Server::new(c.clone()).map_err(|e| format!("Server::new: {e}"))?;
        let run_task = tokio::spawn(async move { server.run().await.map_err(|e| e.to_string()) });
        let t0 = Instant::now();
        let mut ready = false;
        while t0.elapsed() < Duration::from_secs(5) {
            tokio::time::sleep(Duration::from_millis(5)).await;
            if run_task.is_finished() {
                break;
            }
            if TcpStream::connect(c.http_bind).await.is_ok() && TcpStream::connect(c.tcp_bind).await.is_ok() {
                ready = true;
                break;
            }
        }
        if ready {
            return Ok(RunningServer { tcp: c.tcp_bind, http: c.http_bind, run_task });
        }
        // a port was taken in between (run() only logs a failed bind): leave this instance to the shutdown signal
    }
    Err("the configured server did not come up on 10 port pairs".into())
}

fn clients_for(tcp: SocketAddr, http: SocketAddr) -> Result<Clients, String> {
    let tcp_url = format!("tcp://127.0.0.1:{}", tcp.port());
    let http_url = format!("http://127.0.0.1:{}", http.port());
    let ribbit = RibbitClient::new(tcp_url.clone()).map_err(|e| e.to_string())?;
    let tact = TactClient::new(http_url.clone(), false).map_err(|e| e.to_string())?;
    let mk = |https: String| {
        RibbitTactClient::new(ClientConfig { tact_https_url: https, tact_http_url: String::new(), ribbit_url: tcp_url.clone(), cache_config: CacheConfig::memory_optimized(), ..ClientConfig::default() }).map_err(|e| e.to_string())
    };
    Ok(Clients { ribbit, tact, unified: mk(http_url)?, unified_tcp: mk(String::new())? })
}

/// Hosts column: the configured list, token by token (the column is a blank-separated list).
fn hosts_diff(doc: &BpsvDocument, want: &str) -> Option<Fail> {
    let schema = doc.schema();
    for (i, r) in doc.rows().iter().enumerate() {
        match r.get_raw_by_name("Hosts", schema) {
            Some(got) if got.split_whitespace().eq(want.split_whitespace()) => {}
            Some(got) => return Some(Fail { outcome: "field-mismatch:Hosts".into(), detail: json!({"row": i, "got": got.chars().take(300).collect::<String>(), "configured": want.chars().take(300).collect::<String>()}) }),
            None => return Some(Fail { outcome: "field-mismatch:Hosts(missing)".into(), detail: json!({"row": i}) }),
        }
    }
    None
}

#[derive(Clone)]
pub struct CfgCase {
    pub field: &'static str,
    pub class: &'static str,
    pub stream: u64,
    /// replay: exactly these (cdn_hosts, cdn_path)
    pub explicit: Option<(String, String)>,
}

pub fn config_cases(ctx: &Ctx) -> Vec<CfgCase> {
    let mut v = Vec::new();
    let mut s = 40_000u64;
    for c in HOSTS_CLASSES {
        s += 1;
        v.push(CfgCase { field: "cdn_hosts", class: c, stream: s, explicit: None });
    }
    for c in PATH_CLASSES {
        s += 1;
        v.push(CfgCase { field: "cdn_path", class: c, stream: s, explicit: None });
    }
    // thorough: pairs of classes in both fields
    if !ctx.quick() {
        let mut rng = ctx.rng(41_000);
        for _ in 0..60 {
            s += 1;
            let _ = rng.below(2);
            v.push(CfgCase { field: "both", class: "random-pair", stream: s, explicit: None });
        }
    }
    v
}

#[allow(clippy::too_many_lines)]
pub async fn run_config_case(ctx: &Ctx, case: CfgCase) {
    let mut rng = ctx.rng(case.stream);
    let Ok(dir) = tempfile::tempdir() else {
        ctx.inconclusive("cannot create temp dir");
        return;
    };
    // benign database: one product that uses the configured default path (two builds), one with its own path
    let base = BASE_EPOCH + rng.range(0, 300_000_000) as i64;
    let st = |t: i64| Stamp { text: format_rfc3339(t, 0, 0, 0, 0), instant_ns: i128::from(t) * 1_000_000_000 };
    let mut builds = vec![benign_build(&mut rng, 1, "cfg_default", st(base)), benign_build(&mut rng, 2, "cfg_default", st(base + 86_400)), benign_build(&mut rng, 3, "cfg_own_path", st(base + 7))];
    builds[2].rec.cdn_path = Some(format!("tpr/{}", token(&mut rng, 3, 6)));
    let recs: Vec<BuildRecord> = builds.iter().map(|b| b.rec.clone()).collect();
    let Some(path) = write_db(dir.path(), &recs) else {
        ctx.inconclusive("cannot write config-phase database");
        return;
    };
    let (mut hosts_class, mut path_class): (String, String) = ("plain".into(), "plain".into());
    let mut cfg = server_config(&path);
    if let Some((h, p)) = &case.explicit {
        cfg.cdn_hosts = h.clone();
        cfg.cdn_path = p.clone();
        hosts_class = "replayed".into();
        path_class = "replayed".into();
    }
    match case.field {
        "explicit" => {}
        "cdn_hosts" => {
            cfg.cdn_hosts = hostile_hosts(&mut rng, case.class);
            hosts_class = case.class.to_string();
        }
        "cdn_path" => {
            cfg.cdn_path = hostile_path(&mut rng, case.class);
            path_class = case.class.to_string();
        }
        _ => {
            let (hc, pc) = (*rng.pick(&HOSTS_CLASSES), *rng.pick(&PATH_CLASSES));
            cfg.cdn_hosts = hostile_hosts(&mut rng, hc);
            cfg.cdn_path = hostile_path(&mut rng, pc);
            hosts_class = hc.to_string();
            path_class = pc.to_string();
        }
    }
    // the server's own validation of a configuration; what it refuses is recorded and made benign
    for _round in 0..4 {
        match cfg.validate() {
            Ok(()) => break,
            Err(e) => {
                let msg = e.to_string();
                let which = if msg.contains("cdn_hosts") || msg.contains("cdn-hosts") || msg.contains("CDN hosts") {
                    "cdn_hosts"
                } else if msg.contains("cdn_path") || msg.contains("cdn-path") || msg.contains("CDN path") {
                    "cdn_path"
                } else {
                    ctx.inconclusive(&format!("ServerConfig::validate refused a configuration for a reason that names neither field: {msg}"));
                    return;
                };
                let class = if which == "cdn_hosts" { hosts_class.clone() } else { path_class.clone() };
                ctx.obs(&format!("config.rejected.{which}.{class}"), 1);
                if class == "plain" {
                    ctx.inconclusive(&format!("ServerConfig::validate refused a benign {which}: {msg}"));
                    return;
                }
                if which == "cdn_hosts" {
                    cfg.cdn_hosts = CDN_HOSTS.to_string();
                    hosts_class = "plain".into();
                } else {
                    cfg.cdn_path = DEFAULT_CDN_PATH.to_string();
                    path_class = "plain".into();
                }
            }
        }
    }
    if cfg.validate().is_err() {
        ctx.inconclusive("configuration still refused after repairs");
        return;
    }
    if hosts_class != "plain" {
        ctx.obs(&format!("config.accepted.cdn_hosts.{hosts_class}"), 1);
    }
    if path_class != "plain" {
        ctx.obs(&format!("config.accepted.cdn_path.{path_class}"), 1);
    }
    let server = match start_configured(&cfg).await {
        Ok(s) => s,
        Err(e) => {
            ctx.inconclusive(&format!("configured server: {e}"));
            return;
        }
    };
    let clients = match clients_for(server.tcp, server.http) {
        Ok(c) => c,
        Err(e) => {
            ctx.inconclusive(&format!("client construction failed: {e}"));
            return;
        }
    };
    ctx.obs("config.servers_started_with_Server::run", 1);
    ctx.eval_nontrivial(mix64(fnv64(b"config"), fnv64(format!("{}|{}", cfg.cdn_hosts, cfg.cdn_path).as_bytes())));
    let cfg_json = json!({"cdn_hosts": cfg.cdn_hosts.chars().take(400).collect::<String>(), "cdn_path": cfg.cdn_path.chars().take(400).collect::<String>(), "cdn_hosts_class": hosts_class, "cdn_path_class": path_class});
    let db_json = json!(recs.iter().map(|r| serde_json::to_value(r).unwrap_or(Value::Null)).collect::<Vec<_>>());
    let cause = match (hosts_class.as_str(), path_class.as_str()) {
        ("plain", "plain") => "config=benign".to_string(),
        (h, "plain") => format!("config=cdn_hosts|{h}"),
        ("plain", p) => format!("config=cdn_path|{p}"),
        (h, p) => format!("config=cdn_hosts:{h}+cdn_path:{p}"),
    };
    let mut by_product: BTreeMap<String, Vec<&GenBuild>> = BTreeMap::new();
    for b in &builds {
        by_product.entry(b.rec.product.clone()).or_default().push(b);
    }
    for (product, all) in &by_product {
        let max = all.iter().map(|b| b.instant_ns).max().unwrap_or(0);
        let newest: Vec<&GenBuild> = all.iter().copied().filter(|b| b.instant_ns == max).collect();
        for endpoint in ENDPOINTS {
            let p1 = format!("v1/products/{product}/{endpoint}");
            let p2 = format!("v2/products/{product}/{endpoint}");
            let mut failures: BTreeMap<String, (Vec<Tr>, Value)> = BTreeMap::new();
            let trs = [Tr::TcpV1, Tr::TcpV2, Tr::Http, Tr::Unified];
            for tr in trs {
                ctx.obs(&format!("config.request.{}.{endpoint}", tr.name()), 1);
                let fail: Option<Fail> = match query(ctx, &clients, tr, &p1, &p2).await {
                    QueryOutcome::Doc(doc) => match judge_product_d(&doc, endpoint, all, &newest, &cfg.cdn_path) {
                        Err(f) => Some(f),
                        Ok(()) if endpoint == "cdns" => hosts_diff(&doc, &cfg.cdn_hosts),
                        Ok(()) => None,
                    },
                    QueryOutcome::Err(e) => Some(Fail { outcome: err_class(&e), detail: json!({"error": e.to_string().chars().take(400).collect::<String>()}) }),
                    QueryOutcome::Panicked => Some(Fail { outcome: "client-panic".into(), detail: json!({}) }),
                    QueryOutcome::Unjudgeable(why) => {
                        ctx.inconclusive(&format!("request could not be judged ({}): {why}", tr.name()));
                        None
                    }
                };
                match fail {
                    None => ctx.obs(&format!("config.outcome.{endpoint}.reads-back-as-configured"), 1),
                    Some(f) => {
                        let e = failures.entry(f.outcome.clone()).or_insert_with(|| (Vec::new(), f.detail.clone()));
                        e.0.push(tr);
                    }
                }
            }
            for (outcome, (ftrs, detail)) in failures {
                let tl = transports_label(&ftrs, trs.len());
                // only the cdns answer carries configuration values
                let why = if endpoint == "cdns" { cause.clone() } else { "benign-record".to_string() };
                let mut sig = format!("C15|{endpoint}|{tl}|{why}|{outcome}");
                if endpoint == "cdns" {
                    let mut known = CFG_IMPLICATED.lock().unwrap_or_else(std::sync::PoisonError::into_inner);
                    match (hosts_class.as_str(), path_class.as_str()) {
                        ("plain", "plain") => {}
                        // single-field case: remember what this (field, class) leads to
                        (h, "plain") => {
                            known.entry(("cdn_hosts".into(), h.to_string())).or_insert_with(|| sig.clone());
                        }
                        ("plain", p) => {
                            known.entry(("cdn_path".into(), p.to_string())).or_insert_with(|| sig.clone());
                        }
                        // pair: explained by a single-field finding?
                        (h, p) => {
                            if let Some(s1) = known.get(&("cdn_hosts".to_string(), h.to_string())).or_else(|| known.get(&("cdn_path".to_string(), p.to_string()))) {
                                ctx.obs("phaseC.pair-failure-explained-by-single-field-finding", 1);
                                sig = s1.clone();
                            }
                        }
                    }
                }
                ctx.violation(&sig, "accepted server configuration: the answer does not read back as the configuration / database says", json!({"product": product, "endpoint": endpoint, "transports": ftrs.iter().map(|t| t.name()).collect::<Vec<_>>(), "outcome": outcome, "detail": detail, "config": cfg_json, "db": db_json}));
            }
        }
    }
    // summary is independent of the configuration
    let products: BTreeSet<String> = by_product.keys().cloned().collect();
    match query(ctx, &clients, Tr::TcpV1, "v1/summary", "v1/summary").await {
        QueryOutcome::Doc(doc) => {
            if let Err(f) = judge_summary(&doc, &products) {
                ctx.violation(&format!("C15|summary|tcp-v1|benign-record|{}", f.outcome), "v1/summary does not list exactly the products of the database", json!({"config": cfg_json, "detail": f.detail}));
            }
        }
        QueryOutcome::Err(e) => ctx.violation(&format!("C15|summary|tcp-v1|benign-record|{}", err_class(&e)), "v1/summary failed", json!({"config": cfg_json, "error": e.to_string()})),
        QueryOutcome::Panicked => ctx.violation("C15|summary|tcp-v1|benign-record|client-panic", "v1/summary: client panicked", json!({"config": cfg_json})),
        QueryOutcome::Unjudgeable(why) => ctx.inconclusive(&format!("summary request could not be judged: {why}")),
    }
    if server.run_task.is_finished() {
        ctx.violation("C15|server|task-exited-while-serving-valid-requests", "Server::run returned while only well-formed requests were issued", json!({"config": cfg_json}));
    }
    drop(clients);
    RUNNING.lock().unwrap_or_else(std::sync::PoisonError::into_inner).push(server.run_task);
}

/// (config field, class) -> signature, learnt from the single-field cases and used to explain failures of pairs
static CFG_IMPLICATED: Mutex<BTreeMap<(String, String), String>> = Mutex::new(BTreeMap::new());

/// `Server::run` tasks waiting for the shutdown signal (their listeners stay up until it arrives).
static RUNNING: Mutex<Vec<tokio::task::JoinHandle<Result<(), String>>>> = Mutex::new(Vec::new());

/// Ends all servers started through `Server::run` the way an operator does: SIGINT. Every `run()` must
/// come back. Only called when at least one such server is up (its `ctrl_c()` listener is what keeps
/// the signal from terminating the process; a listener of our own is registered first to be sure).
pub async fn shutdown_configured_servers(ctx: &Ctx) {
    let tasks: Vec<_> = std::mem::take(&mut *RUNNING.lock().unwrap_or_else(std::sync::PoisonError::into_inner));
    if tasks.is_empty() {
        return;
    }
    let Ok(mut own) = tokio::signal::unix::signal(tokio::signal::unix::SignalKind::interrupt()) else {
        ctx.obs("config.shutdown.skipped(no signal listener)", 1);
        for t in tasks {
            t.abort();
        }
        return;
    };
    // SAFETY: raising a signal for which a handler is installed (tokio's, registered above).
    unsafe {
        libc::raise(libc::SIGINT);
    }
    let _ = tokio::time::timeout(Duration::from_secs(10), own.recv()).await;
    for t in tasks {
        match tokio::time::timeout(Duration::from_secs(20), t).await {
            Ok(Ok(Ok(()))) => ctx.obs("config.shutdown.run_returned_ok", 1),
            Ok(Ok(Err(e))) => ctx.obs(&format!("config.shutdown.run_returned_err.{}", e.chars().take(40).collect::<String>()), 1),
            Ok(Err(_)) => ctx.obs("config.shutdown.run_task_failed", 1),
            Err(_) => ctx.obs("config.shutdown.run_still_running_after_20s", 1),
        }
    }
}

// ---------------------------------------------------------------------------
// unknown products through the real clients

/// Names that are not products of the database, derived from the ones that are.
pub fn unknown_names(products: &BTreeSet<String>, rng: &mut Rng) -> Vec<(&'static str, String)> {
    let mut v: Vec<(&'static str, String)> = vec![("unrelated", format!("no_such_{}", token(rng, 3, 6)))];
    if let Some(p) = products.iter().find(|p| p.is_ascii() && p.len() >= 2 && tcp_requestable(p) && http_requestable(p)) {
        v.push(("known-name-plus-suffix", format!("{p}x")));
        v.push(("known-name-minus-last-char", p[..p.len() - 1].to_string()));
        v.push(("known-name-other-case", if p.to_uppercase() == *p { p.to_lowercase() } else { p.to_uppercase() }));
    }
    v.retain(|(_, n)| !products.contains(n) && tcp_requestable(n) && http_requestable(n) && n.chars().all(|c| c.is_ascii_alphanumeric() || c == '_' || c == '-' || c == '.'));
    v
}

pub async fn probe_unknown_products(ctx: &Ctx, clients: &Clients, products: &BTreeSet<String>, endpoint: &str, rng: &mut Rng, db_json: &dyn Fn() -> Value) {
    for (kind, name) in unknown_names(products, rng) {
        let p1 = format!("v1/products/{name}/{endpoint}");
        let p2 = format!("v2/products/{name}/{endpoint}");
        for tr in [Tr::TcpV1, Tr::TcpV2, Tr::Http, Tr::Unified] {
            ctx.obs(&format!("unknown-product.request.{}", tr.name()), 1);
            match query(ctx, clients, tr, &p1, &p2).await {
                QueryOutcome::Doc(doc) if doc.row_count() > 0 => {
                    ctx.violation(&format!("C15|unknown-product|{}|{kind}|answered-with-rows", tr.name()), "a request for a product the database does not contain was answered with data rows", json!({"requested": name, "endpoint": endpoint, "rows": doc.row_count(), "first_row": doc.get_row(0).map(|r| r.raw_values().to_vec()), "db": db_json()}));
                }
                QueryOutcome::Doc(_) => ctx.obs(&format!("unknown-product.{}.empty-document", tr.name()), 1),
                QueryOutcome::Err(e) => ctx.obs(&format!("unknown-product.{}.{}", tr.name(), err_class(&e)), 1),
                QueryOutcome::Panicked => ctx.violation(&format!("C15|unknown-product|{}|{kind}|client-panic", tr.name()), "the client panicked on the reply to a request for an unknown product", json!({"requested": name, "endpoint": endpoint})),
                QueryOutcome::Unjudgeable(why) => ctx.obs(&format!("unknown-product.{}.unjudgeable.{}", tr.name(), why.chars().take(30).collect::<String>()), 1),
            }
        }
    }
}

// ---------------------------------------------------------------------------
// the reader's other entry points on a real reply

/// A reader that hands out at most 3 bytes per call (line and UTF-8 boundaries fall anywhere).
struct Trickle<'a>(&'a [u8]);

impl std::io::Read for Trickle<'_> {
    fn read(&mut self, buf: &mut [u8]) -> std::io::Result<usize> {
        let n = self.0.len().min(3).min(buf.len());
        buf[..n].copy_from_slice(&self.0[..n]);
        self.0 = &self.0[n..];
        Ok(n)
    }
}

fn doc_proj(d: &BpsvDocument) -> String {
    let rows: Vec<String> = d.rows().iter().map(|r| format!("{:?}", r.raw_values())).collect();
    format!("{} # {:?} # {}", d.schema().to_header(), d.sequence_number(), rows.join(" ; "))
}

/// `reply` = raw TCP v2 reply (plain BPSV) for (product, endpoint); `main_ok` = the document parse of the same
/// request read back as the database says.
#[allow(clippy::too_many_arguments)]
pub fn reader_entry_points(ctx: &Ctx, reply: &[u8], endpoint: &str, all: &[&GenBuild], newest: &[&GenBuild], dir: &std::path::Path, db_json: &dyn Fn() -> Value) {
    let Ok(text) = std::str::from_utf8(reply) else {
        ctx.obs("reader.reply-not-utf8(not judged)", 1);
        return;
    };
    let Ok(main) = cascette_formats::bpsv::parse(text) else {
        ctx.obs("reader.reply-does-not-parse(judged elsewhere)", 1);
        return;
    };
    if judge_product(&main, endpoint, all, newest).is_err() {
        ctx.obs("reader.reply-not-equal-record(judged elsewhere)", 1);
        return;
    }
    let want = doc_proj(&main);
    let detail = |which: &str, got: String| json!({"entry_point": which, "endpoint": endpoint, "got": got.chars().take(600).collect::<String>(), "document_parse": want.chars().take(600).collect::<String>(), "reply": text.chars().take(600).collect::<String>(), "db": db_json()});
    ctx.obs("reader.replies", 1);
    // parse_schema: the schema alone
    match cascette_formats::bpsv::parse_schema(text) {
        Ok(s) if s.to_header() == main.schema().to_header() => ctx.obs("reader.parse_schema.agrees", 1),
        Ok(s) => ctx.violation(&format!("C15|{endpoint}|reader-entry-point|parse_schema|differs-from-document-parse"), "parse_schema reads another schema than the document parse from the same reply", detail("parse_schema", s.to_header())),
        Err(e) => ctx.violation(&format!("C15|{endpoint}|reader-entry-point|parse_schema|error-on-a-reply-the-document-parse-accepts"), "parse_schema fails on a reply the document parse accepts", detail("parse_schema", e.to_string())),
    }
    // BpsvReader over a file and over a reader that trickles bytes
    let file = dir.join(format!("reply-{:016x}.bpsv", fnv64(reply)));
    let from_path = std::fs::write(&file, reply).ok().and_then(|()| BpsvReader::from_path(&file).ok()).map(|mut r| r.read_document());
    let _ = std::fs::remove_file(&file);
    let trickle = BpsvReader::new(Trickle(reply)).read_document();
    for (which, r) in [("BpsvReader::from_path", from_path), ("BpsvReader::new(trickling reader)", Some(trickle))] {
        let short = if which.contains("from_path") { "from_path" } else { "trickling-reader" };
        match r {
            None => ctx.obs("reader.from_path.io-error(not judged)", 1),
            Some(Ok(d)) => {
                if doc_proj(&d) != want {
                    ctx.violation(&format!("C15|{endpoint}|reader-entry-point|{short}|differs-from-document-parse"), "a reader entry point yields another document than the document parse of the same reply", detail(which, doc_proj(&d)));
                } else if judge_product(&d, endpoint, all, newest).is_err() {
                    ctx.violation(&format!("C15|{endpoint}|reader-entry-point|{short}|rows-differ-from-record"), "a reader entry point yields rows that differ from the database record", detail(which, doc_proj(&d)));
                } else {
                    ctx.obs(&format!("reader.{short}.agrees"), 1);
                }
            }
            Some(Err(e)) => ctx.violation(&format!("C15|{endpoint}|reader-entry-point|{short}|error-on-a-reply-the-document-parse-accepts"), "a reader entry point fails on a reply the document parse accepts", detail(which, e.to_string())),
        }
    }
}
