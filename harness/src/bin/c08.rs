//! C08 — serialisation is stable: parse-build-parse-build reaches a fixed point.
//!
//! One generic driver over every `CascFormat` implementor (+ the archive group through its own parse/build).
//! For every input x the parser ACCEPTS:   b1 = build(parse(x)) succeeds (no Err, no panic);  parse(b1)
//! succeeds;  build(parse(b1)) == b1 byte for byte;  logical content of parse(x) and parse(b1) is equal through
//! per-format projections over public fields.  Unmutated real fixtures additionally need b1 == x, and values
//! produced by the builders must parse back to the same logical content.
//!
//! Corpus: every fixture below test_fixtures (read at run time) + small builder outputs, mutated (bit flips,
//! interesting values BE/LE in header/trailer regions, field +-1, truncations, splices, duplicated regions;
//! line-level edits for the text formats) and filtered to accepted inputs. The mutated part runs in child
//! processes (`--worker`), one per shard, with RLIMIT_AS set: an input that kills or hangs a worker (alloc bomb,
//! abort: judged by C02) is skipped with an observation and the shard is resumed behind it.

#[path = "c08/extra.rs"]
mod extra;
#[path = "c08/fmts.rs"]
mod fmts;
#[path = "c08/mutate.rs"]
mod mutate;
#[path = "c08/seeds.rs"]
mod seeds;
#[path = "c08/values.rs"]
mod values;

use fmts::{FORMAT_NAMES, Fmt, candidate_keys, is_text};
use seeds::Seed;
use serde_json::{Value, json};
use std::cell::RefCell;
use std::collections::BTreeMap;
use std::io::{BufRead, BufReader, Write};
use std::panic::{AssertUnwindSafe, catch_unwind};
use std::process::{Command, Stdio};
use std::sync::atomic::{AtomicU64, Ordering};
use vh::{Ctx, Rng, fnv64, hex_short, mix64};

thread_local! {
    static LAST_PANIC: RefCell<Option<String>> = const { RefCell::new(None) };
}

fn install_panic_hook() {
    std::panic::set_hook(Box::new(|info| {
        let msg = if let Some(s) = info.payload().downcast_ref::<&str>() {
            (*s).to_string()
        } else if let Some(s) = info.payload().downcast_ref::<String>() {
            s.clone()
        } else {
            "non-string panic".to_string()
        };
        let file = info.location().map_or("?", |l| l.file()).to_string();
        let file = file.rsplit("/crates/").next().unwrap_or(&file).to_string();
        let msg: String = msg.chars().filter(|c| !c.is_ascii_digit()).take(60).collect();
        LAST_PANIC.with(|p| *p.borrow_mut() = Some(format!("{file}:{}", msg.trim())));
    }));
}

fn take_panic() -> String {
    LAST_PANIC.with(|p| p.borrow_mut().take()).unwrap_or_else(|| "unknown".into())
}

/// Stable class of an error rendered with `Debug`: variant name, or the digit-free text for string errors.
fn err_class(e: &str) -> String {
    let head = e.split(['(', '{']).next().unwrap_or(e).trim();
    let s: String = if head.starts_with('"') || head.contains(' ') { e.chars().filter(|c| !c.is_ascii_digit() && *c != '"').take(48).collect() } else { head.to_string() };
    s.trim().to_string()
}

#[derive(Debug, Clone)]
struct Viol {
    relation: &'static str,
    class: String,
    detail: Value,
}

enum Status {
    Rejected,
    ParsePanicked,
    Accepted,
}

struct Drive {
    status: Status,
    viols: Vec<Viol>,
    b1: Option<Vec<u8>>,
    /// observation counters of the extension sub-checks (which operations were exercised on this input)
    obs: BTreeMap<String, u64>,
}

/// `CascFormat::verify_round_trip` must say exactly "parse and build succeed and give the input back".
fn verify_agrees<F: Fmt>(x: &[u8], expected_ok: bool, rejected: bool, viols: &mut Vec<Viol>, obs: &mut BTreeMap<String, u64>) {
    match catch_unwind(AssertUnwindSafe(|| F::verify_(x))) {
        Ok(None) => {}
        Ok(Some(says)) => {
            *obs.entry(format!("x.verify_round_trip.{}", if rejected { "on_rejected" } else if says { "ok" } else { "err" })).or_insert(0) += 1;
            if says != expected_ok {
                let class = if rejected { "ok-on-rejected-input" } else if says { "ok-but-rebuild-differs" } else { "err-but-rebuild-identical" };
                viols.push(Viol { relation: "verify_round_trip-disagrees", class: class.into(), detail: json!({"verify_round_trip_ok": says}) });
            }
        }
        Err(_) => {
            let site = take_panic();
            // a parser panic is C02's subject: only a panic on an input parse() survived is reported here
            if !rejected {
                viols.push(Viol { relation: "verify_round_trip-disagrees", class: format!("panic:{site}"), detail: json!({"panic": site}) });
            }
        }
    }
}

/// The oracle for one input. `canonical`: an unmutated fixture / builder output offered to its own format.
fn drive<F: Fmt>(x: &[u8], canonical: bool) -> Drive {
    let mut viols = Vec::new();
    let mut obs = BTreeMap::new();
    let p0 = match catch_unwind(AssertUnwindSafe(|| F::parse_(x))) {
        Err(_) => {
            let _ = take_panic();
            return Drive { status: Status::ParsePanicked, viols, b1: None, obs };
        }
        Ok(Err(e)) => {
            if canonical {
                // remembered for the caller: a BUILDER output that its own parser rejects refutes "parsing the
                // serialisation of a builder's value gives back the same logical content"
                obs.insert(format!("canonical-input-rejected:{}", err_class(&e)), 1);
            }
            verify_agrees::<F>(x, false, true, &mut viols, &mut obs);
            return Drive { status: if viols.is_empty() { Status::Rejected } else { Status::Accepted }, viols, b1: None, obs };
        }
        Ok(Ok(v)) => v,
    };
    let acc = |viols: Vec<Viol>, b1: Option<Vec<u8>>| Drive { status: Status::Accepted, viols, b1, obs: BTreeMap::new() };
    let b1 = match catch_unwind(AssertUnwindSafe(|| p0.build_())) {
        Err(_) => {
            let site = take_panic();
            viols.push(Viol { relation: "build-panics", class: site.clone(), detail: json!({"panic": site}) });
            return acc(viols, None);
        }
        Ok(Err(e)) => {
            viols.push(Viol { relation: "build-fails", class: err_class(&e), detail: json!({"error": e.chars().take(300).collect::<String>()}) });
            return acc(viols, None);
        }
        Ok(Ok(b)) => b,
    };
    let cause = F::cause(x, &b1);
    let with_cause = |generic: String| cause.clone().unwrap_or(generic);
    let p1 = match catch_unwind(AssertUnwindSafe(|| F::parse_(&b1))) {
        Err(_) => {
            let site = take_panic();
            viols.push(Viol { relation: "reparse-fails", class: with_cause(format!("panic:{site}")), detail: json!({"panic": site, "b1_len": b1.len(), "b1": hex_short(&b1, 256)}) });
            return acc(viols, Some(b1));
        }
        Ok(Err(e)) => {
            viols.push(Viol { relation: "reparse-fails", class: with_cause(err_class(&e)), detail: json!({"error": e.chars().take(300).collect::<String>(), "b1_len": b1.len(), "b1": hex_short(&b1, 256)}) });
            return acc(viols, Some(b1));
        }
        Ok(Ok(v)) => v,
    };
    match catch_unwind(AssertUnwindSafe(|| p1.build_())) {
        Err(_) => {
            let site = take_panic();
            viols.push(Viol { relation: "not-fixed-point", class: with_cause(format!("second-build-panics:{site}")), detail: json!({"panic": site}) });
        }
        Ok(Err(e)) => viols.push(Viol { relation: "not-fixed-point", class: with_cause(format!("second-build-fails:{}", err_class(&e))), detail: json!({"error": e.chars().take(300).collect::<String>()}) }),
        Ok(Ok(b2)) => {
            if b2 != b1 {
                let first = b1.iter().zip(&b2).position(|(a, b)| a != b).unwrap_or(b1.len().min(b2.len()));
                // class: which logical component keeps changing (stable across witnesses), else layout only
                let keys2 = if F::TEXT { candidate_keys(&[&b1, &b2]) } else { Vec::new() };
                let class = match catch_unwind(AssertUnwindSafe(|| F::parse_(&b2).map(|p2| (p1.project(&keys2), p2.project(&keys2))))) {
                    Ok(Ok((a, b))) => a.iter().zip(&b).find(|(x, y)| x != y).map_or_else(|| "layout-only".to_string(), |((n, _), _)| format!("changes:{n}")),
                    _ => "second-output-unparseable".to_string(),
                };
                viols.push(Viol { relation: "not-fixed-point", class: with_cause(class), detail: json!({"b1_len": b1.len(), "b2_len": b2.len(), "first_diff_at": first, "b1_at": hex_short(&b1[first.min(b1.len())..], 32), "b2_at": hex_short(&b2[first.min(b2.len())..], 32)}) });
            }
        }
    }
    let keys = if F::TEXT { candidate_keys(&[x, &b1]) } else { Vec::new() };
    let pr = catch_unwind(AssertUnwindSafe(|| (p0.project(&keys), p1.project(&keys))));
    if let Ok((a, b)) = pr {
        if let Some(((name, _), _)) = a.iter().zip(&b).find(|(x, y)| x != y) {
            viols.push(Viol { relation: "logical-content-changed", class: with_cause((*name).to_string()), detail: json!({"component": name, "b1_len": b1.len(), "b1": hex_short(&b1, 256)}) });
        }
    }
    // extension sub-checks run on inputs the main oracle has nothing to say about (no cascades on a listed finding):
    // every canonical input, a third of the mutated ones (they more than double the cost of an input)
    if viols.is_empty() && (canonical || fnv64(x) % 3 == 0) {
        verify_agrees::<F>(x, b1.as_slice() == x, false, &mut viols, &mut obs);
        let mut out = extra::Out::default();
        extra::run(F::NAME, x, &b1, canonical, &mut out);
        for v in out.viols {
            viols.push(Viol { relation: v.relation, class: v.class, detail: v.detail });
        }
        for (k, v) in out.obs {
            *obs.entry(k).or_insert(0) += v;
        }
    }
    Drive { status: Status::Accepted, viols, b1: Some(b1), obs }
}

fn dump<F: Fmt>(x: &[u8]) -> String {
    match catch_unwind(AssertUnwindSafe(|| F::parse_(x).map(|v| v.dbg()))) {
        Ok(Ok(s)) => s,
        Ok(Err(e)) => format!("parse error: {e}"),
        Err(_) => "parse panicked".into(),
    }
}

fn dump_named(name: &str, x: &[u8]) -> String {
    with_format!(name, dump, x)
}

fn drive_named(name: &str, x: &[u8], canonical: bool) -> Drive {
    with_format!(name, drive, x, canonical)
}

// ------------------------------------------------------------------------------------------------ plan

#[derive(Clone, Copy, Debug)]
struct Entry {
    fmt: usize,
    seed: usize,
    mutation: u32, // 0 = unmutated
}

fn fmt_index(name: &str) -> usize {
    FORMAT_NAMES.iter().position(|n| *n == name).unwrap_or(0)
}

/// Deterministic list of (format, seed, mutation) attempts.
fn plan(seeds: &[Seed], quick: bool) -> Vec<Entry> {
    let per_format: u32 = if quick { 20_000 } else { 250_000 };
    let mut v = Vec::new();
    for (fi, fname) in FORMAT_NAMES.iter().enumerate() {
        let home: Vec<usize> = seeds.iter().enumerate().filter(|(_, s)| s.format == *fname).map(|(i, _)| i).collect();
        if home.is_empty() {
            continue;
        }
        // attempts are split over the seeds of the format; big seeds get fewer (cost ~ size)
        let weights: Vec<f64> = home.iter().map(|&i| 1.0 / (1.0 + (seeds[i].bytes.len() as f64 / 30_000.0))).collect();
        let wsum: f64 = weights.iter().sum();
        for (k, &si) in home.iter().enumerate() {
            let n = ((f64::from(per_format) * weights[k] / wsum).ceil() as u32).max(8);
            for m in 0..=n {
                v.push(Entry { fmt: fi, seed: si, mutation: m });
            }
        }
    }
    // cross-feeding: every seed unmutated to every other format; text seeds also mutated into the other text formats
    for (si, s) in seeds.iter().enumerate() {
        if s.format == "ESpec" && s.fixture && si % 8 != 0 {
            continue;
        }
        for (fi, fname) in FORMAT_NAMES.iter().enumerate() {
            if *fname == s.format {
                continue;
            }
            v.push(Entry { fmt: fi, seed: si, mutation: 0 });
            if is_text(fname) && is_text(s.format) {
                for m in 1..=(if quick { 12 } else { 100 }) {
                    v.push(Entry { fmt: fi, seed: si, mutation: m });
                }
            }
        }
    }
    v
}

fn make_input(seed_val: u64, seeds: &[Seed], e: Entry) -> (Vec<u8>, &'static str) {
    let s = &seeds[e.seed];
    if e.mutation == 0 {
        return (s.bytes.clone(), "unmutated");
    }
    let mut rng = Rng::derive(seed_val, mix64(mix64(e.fmt as u64, fnv64(s.name.as_bytes())), u64::from(e.mutation)));
    let others: Vec<&[u8]> = seeds.iter().filter(|o| o.format == s.format && o.name != s.name).map(|o| o.bytes.as_slice()).take(6).collect();
    let (mut x, kind) = mutate::mutate(&mut rng, &s.bytes, &others, is_text(s.format));
    // archive indices carry a hash over their footer fields: without repairing it, every mutation of a footer field
    // (version, widths, element count) is rejected at the door and the writer never sees an unusual-but-accepted footer.
    // Half of the mutants get the hash recomputed (harness MD5 over the 12 field bytes padded to 20, first 8 bytes).
    if matches!(s.format, "ArchiveIndex" | "ArchiveGroup") && x.len() >= 28 && x[x.len() - 13] == 8 && rng.bool() {
        let n = x.len();
        if rng.chance(1, 3) {
            // and a third of those also get the element count nudged (the count is what ties the footer to the pages)
            let c = u32::from_le_bytes([x[n - 12], x[n - 11], x[n - 10], x[n - 9]]);
            let c2 = match rng.below(4) {
                0 => c.wrapping_add(1),
                1 => c.wrapping_sub(1),
                2 => c.wrapping_add(2),
                _ => c / 2,
            };
            x[n - 12..n - 8].copy_from_slice(&c2.to_le_bytes());
        }
        let mut data = x[n - 20..n - 8].to_vec();
        data.resize(20, 0);
        let h = md5::compute(&data).0;
        x[n - 8..].copy_from_slice(&h[..8]);
        return (x, "footer-hash-repaired");
    }
    (x, kind)
}

fn all_seeds(seed_val: u64) -> (Vec<Seed>, usize, Vec<String>) {
    let (mut seeds, found, unattributed) = seeds::load_fixtures();
    seeds.extend(seeds::builder_seeds(seed_val));
    seeds.extend(values::extension_seeds(seed_val));
    (seeds, found, unattributed)
}

fn signature(fmt: &str, v: &Viol) -> String {
    format!("C08|{fmt}|{}|{}", v.relation, v.class)
}

fn summary(relation: &str) -> &'static str {
    match relation {
        "builder-output-rejected" => "the serialisation of a value produced by the format's own builder is rejected by the format's parser",
        "build-fails" => "an accepted input cannot be written back out (build returns Err)",
        "build-panics" => "build() panics on a value the parser accepted",
        "reparse-fails" => "the output of build(parse(x)) is rejected by the parser",
        "not-fixed-point" => "build(parse(build(parse(x)))) differs from build(parse(x))",
        "logical-content-changed" => "logical content of parse(x) and parse(build(parse(x))) differs",
        "fixture-not-byte-exact" => "an unmutated real fixture does not round-trip to identical bytes",
        "verify_round_trip-disagrees" => "verify_round_trip(x) does not say what parse + build + compare say about x",
        "alt-entry-differs" => "an alternative reader / writer of the same format does not agree with parse / build on an accepted input",
        "builder-rebuild-changed" => "a builder created from a parsed value (from_*) does not reproduce its logical content",
        "builder-rebuild-fails" => "a builder created from a canonical parsed value (from_*) cannot build it",
        "builder-edit-wrong" => "a remove/add program on a builder created from a parsed value does not yield the model's content",
        "derived-view-changed" => "an accessor that is a function of the logical content differs between parse(x) and parse(build(parse(x)))",
        _ => "builder-produced value does not parse back to the same logical content",
    }
}

// ------------------------------------------------------------------------------------------------ worker

fn worker_main(args: &[String]) -> ! {
    let get = |k: &str| args.iter().position(|a| a == k).and_then(|i| args.get(i + 1)).cloned().unwrap_or_default();
    let shard: usize = get("--worker").parse().unwrap_or(0);
    let shards: usize = get("--shards").parse().unwrap_or(1);
    let start: usize = get("--start").parse().unwrap_or(0);
    let seed_val: u64 = get("--seed").parse::<i64>().unwrap_or(1) as u64;
    let quick = get("--tier") != "thorough";
    // an allocation bomb must only kill this process
    let lim = libc::rlimit { rlim_cur: 4 << 30, rlim_max: 4 << 30 };
    // SAFETY: plain setrlimit call with a valid struct
    unsafe {
        libc::setrlimit(libc::RLIMIT_AS, &lim);
    }
    install_panic_hook();
    // self-watchdog: no progress for 40 s -> exit 98 (the parent skips the input)
    static PROGRESS: AtomicU64 = AtomicU64::new(0);
    std::thread::spawn(|| {
        let mut last = u64::MAX;
        let mut same = 0;
        loop {
            std::thread::sleep(std::time::Duration::from_secs(2));
            let cur = PROGRESS.load(Ordering::Relaxed);
            if cur == last {
                same += 1;
                if same >= 20 {
                    // SAFETY: immediate process exit without running destructors
                    unsafe { libc::_exit(98) };
                }
            } else {
                same = 0;
                last = cur;
            }
        }
    });
    let (seeds, _, _) = all_seeds(seed_val);
    let fixture_hashes: std::collections::HashSet<u64> = seeds.iter().filter(|s| s.fixture).map(|s| fnv64(&s.bytes)).collect();
    let entries: Vec<Entry> = plan(&seeds, quick).into_iter().enumerate().filter(|(i, _)| i % shards == shard).map(|(_, e)| e).collect();
    let out = std::io::stdout();
    let mut out = out.lock();
    let mut counters: BTreeMap<String, u64> = BTreeMap::new();
    let mut hashes: Vec<u64> = Vec::new();
    let flush = |out: &mut std::io::StdoutLock<'_>, counters: &mut BTreeMap<String, u64>, hashes: &mut Vec<u64>| {
        for (k, v) in std::mem::take(counters) {
            let _ = writeln!(out, "O {k} {v}");
        }
        if !hashes.is_empty() {
            let _ = writeln!(out, "H {}", hashes.iter().map(u64::to_string).collect::<Vec<_>>().join(" "));
            hashes.clear();
        }
        let _ = out.flush();
    };
    let mut samples_sent = 0u32;
    for (pos, e) in entries.iter().enumerate().skip(start) {
        let _ = writeln!(out, "P {pos}");
        let _ = out.flush();
        PROGRESS.fetch_add(1, Ordering::Relaxed);
        let fname = FORMAT_NAMES[e.fmt];
        let (x, kind) = make_input(seed_val, &seeds, *e);
        let cross = seeds[e.seed].format != fname;
        let d = drive_named(fname, &x, e.mutation == 0 && !cross);
        for (k, v) in &d.obs {
            *counters.entry(k.clone()).or_insert(0) += v;
        }
        match d.status {
            Status::Rejected => {
                *counters.entry(format!("{fname}.rejected")).or_insert(0) += 1;
                if e.mutation == 0 && !cross && !seeds[e.seed].fixture && seeds[e.seed].name.starts_with("builder/") {
                    let class = d.obs.keys().find_map(|k| k.strip_prefix("canonical-input-rejected:")).unwrap_or("rejected").to_string();
                    let v = Viol { relation: "builder-output-rejected", class, detail: json!({"builder_seed": seeds[e.seed].name}) };
                    let doc = json!({"sig": signature(fname, &v), "relation": v.relation, "detail": {"format": fname, "seed_name": seeds[e.seed].name, "mutation": 0, "mutation_kind": kind, "plan": [e.fmt, e.seed, e.mutation], "input_len": x.len(), "input_fnv": fnv64(&x).to_string(), "input": hex_short(&x, 2048), "what": v.detail}});
                    let _ = writeln!(out, "V {doc}");
                }
            }
            Status::ParsePanicked => *counters.entry(format!("{fname}.parse_panicked_skipped")).or_insert(0) += 1,
            Status::Accepted => {
                *counters.entry(format!("{fname}.accepted")).or_insert(0) += 1;
                *counters.entry(format!("mutation.{kind}.accepted")).or_insert(0) += 1;
                if cross {
                    *counters.entry(format!("{fname}.accepted_foreign_seed")).or_insert(0) += 1;
                }
                let h = mix64(fnv64(fname.as_bytes()), fnv64(&x));
                if e.mutation != 0 && !fixture_hashes.contains(&fnv64(&x)) {
                    if samples_sent < 1 && pos % 97 == 13 {
                        // a concrete accepted, mutated input for the evidence file
                        samples_sent += 1;
                        let doc = json!({"kind": "accepted mutated input (parse-build-parse-build judged)", "format": fname, "seed_name": seeds[e.seed].name, "mutation_kind": kind, "input_len": x.len(), "input": hex_short(&x, 96), "rebuilt_len": d.b1.as_ref().map(Vec::len), "rebuilt_equals_input": d.b1.as_deref().is_some_and(|b| b == x.as_slice()), "violations": d.viols.len()});
                        let _ = writeln!(out, "S {doc}");
                    }
                    hashes.push(h);
                    if d.b1.as_deref().is_some_and(|b| b != x.as_slice()) {
                        *counters.entry(format!("{fname}.accepted_non_canonical")).or_insert(0) += 1;
                    }
                }
                for v in &d.viols {
                    let doc = json!({"sig": signature(fname, v), "relation": v.relation, "detail": {"format": fname, "seed_name": seeds[e.seed].name, "mutation": e.mutation, "mutation_kind": kind, "plan": [e.fmt, e.seed, e.mutation], "input_len": x.len(), "input_fnv": fnv64(&x).to_string(), "input": hex_short(&x, 2048), "what": v.detail}});
                    let _ = writeln!(out, "V {doc}");
                }
            }
        }
        *counters.entry("inputs_tried".into()).or_insert(0) += 1;
        if pos % 64 == 63 {
            flush(&mut out, &mut counters, &mut hashes);
        }
    }
    flush(&mut out, &mut counters, &mut hashes);
    let _ = writeln!(out, "E");
    let _ = out.flush();
    std::process::exit(0);
}

// ------------------------------------------------------------------------------------------------ parent

fn report(ctx: &Ctx, sig: &str, relation: &str, detail: Value) {
    ctx.violation(sig, summary(relation), detail);
}

fn run_workers(ctx: &Ctx, seeds: &[Seed]) {
    let shards = 16usize;
    let total_plan = plan(seeds, ctx.quick()).len();
    ctx.obs("plan.entries", total_plan as u64);
    let exe = match std::env::current_exe() {
        Ok(e) => e,
        Err(e) => {
            ctx.inconclusive(&format!("cannot locate own executable for workers: {e}"));
            return;
        }
    };
    std::thread::scope(|s| {
        for shard in 0..shards {
            let exe = exe.clone();
            s.spawn(move || {
                let shard_len = (0..total_plan).filter(|i| i % shards == shard).count();
                let mut start = 0usize;
                let mut restarts = 0u32;
                while start < shard_len {
                    let child = Command::new(&exe)
                        .args(["--worker", &shard.to_string(), "--shards", &shards.to_string(), "--start", &start.to_string(), "--seed", &(ctx.seed as i64).to_string(), "--tier", ctx.tier_name()])
                        .stdin(Stdio::null())
                        .stdout(Stdio::piped())
                        .stderr(Stdio::null())
                        .spawn();
                    let mut child = match child {
                        Ok(c) => c,
                        Err(e) => {
                            ctx.inconclusive(&format!("cannot spawn worker: {e}"));
                            return;
                        }
                    };
                    let mut last_pos: Option<usize> = None;
                    let mut finished = false;
                    if let Some(out) = child.stdout.take() {
                        for line in BufReader::new(out).lines() {
                            let Ok(line) = line else { break };
                            let (tag, rest) = line.split_at(line.len().min(2));
                            match tag {
                                "P " => last_pos = rest.trim().parse().ok(),
                                "O " => {
                                    let mut it = rest.split_whitespace();
                                    if let (Some(k), Some(v)) = (it.next(), it.next().and_then(|v| v.parse::<u64>().ok())) {
                                        ctx.obs(k, v);
                                        if k == "inputs_tried" {
                                            ctx.add_evals(v);
                                        }
                                    }
                                }
                                "S " => {
                                    if let Ok(v) = serde_json::from_str::<Value>(rest) {
                                        ctx.sample(v);
                                    }
                                }
                                "H " => ctx.add_nontrivial(rest.split_whitespace().filter_map(|h| h.parse::<u64>().ok())),
                                "V " => {
                                    if let Ok(v) = serde_json::from_str::<Value>(rest) {
                                        let sig = v.get("sig").and_then(Value::as_str).unwrap_or("C08|?|?|?").to_string();
                                        let rel = v.get("relation").and_then(Value::as_str).unwrap_or("").to_string();
                                        report(ctx, &sig, &rel, v.get("detail").cloned().unwrap_or(Value::Null));
                                    }
                                }
                                _ if line == "E" => finished = true,
                                _ => {}
                            }
                        }
                    }
                    let status = child.wait();
                    if finished {
                        break;
                    }
                    // the worker died on the input it announced last: skip it (C02 judges crashes), resume behind it
                    let how = match status {
                        Ok(st) => {
                            use std::os::unix::process::ExitStatusExt;
                            if let Some(sig) = st.signal() { format!("signal-{sig}") } else { format!("exit-{}", st.code().unwrap_or(-1)) }
                        }
                        Err(_) => "wait-failed".into(),
                    };
                    ctx.obs(&format!("worker_died_input_skipped.{how}"), 1);
                    restarts += 1;
                    let dead_pos = last_pos.unwrap_or(start);
                    if ctx.want_sample() {
                        let entries: Vec<Entry> = plan(seeds, ctx.quick()).into_iter().enumerate().filter(|(i, _)| i % shards == shard).map(|(_, e)| e).collect();
                        if let Some(e) = entries.get(dead_pos) {
                            ctx.sample(json!({"kind":"input skipped because the worker process died on it (judged by C02, not C08)","how":how,"format":FORMAT_NAMES[e.fmt],"seed":seeds[e.seed].name,"mutation":e.mutation}));
                        }
                    }
                    start = dead_pos + 1;
                    if restarts > 400 {
                        ctx.inconclusive("a worker shard died more than 400 times");
                        return;
                    }
                }
            });
        }
    });
}

fn check_fixtures(ctx: &Ctx, seeds: &[Seed]) {
    for s in seeds.iter().filter(|s| s.fixture) {
        let d = drive_named(s.format, &s.bytes, true);
        ctx.eval();
        for (k, v) in &d.obs {
            ctx.obs(k, *v);
        }
        match d.status {
            Status::Accepted => {
                ctx.obs(&format!("fixtures.{}.accepted", s.format), 1);
                let mut viols = d.viols.clone();
                if let Some(b1) = &d.b1 {
                    if b1.as_slice() != s.bytes.as_slice() {
                        let first = b1.iter().zip(&s.bytes).position(|(a, b)| a != b).unwrap_or(b1.len().min(s.bytes.len()));
                        let class = fmts::fixture_diff_class(s.format, &s.bytes, b1);
                        if std::env::var("C08_VERBOSE").is_ok() && s.bytes.len() < 400 {
                            eprintln!("FIXTURE-DIFF {} {}\n   fixture: {}\n   rebuilt: {}", s.format, s.name, String::from_utf8_lossy(&s.bytes), String::from_utf8_lossy(b1));
                        }
                        viols.push(Viol { relation: "fixture-not-byte-exact", class, detail: json!({"fixture_len": s.bytes.len(), "rebuilt_len": b1.len(), "first_diff_at": first, "fixture_at": hex_short(&s.bytes[first.min(s.bytes.len())..], 48), "rebuilt_at": hex_short(&b1[first.min(b1.len())..], 48)}) });
                    } else {
                        ctx.obs(&format!("fixtures.{}.byte_exact", s.format), 1);
                    }
                }
                for v in viols {
                    report(ctx, &signature(s.format, &v), v.relation, json!({"format": s.format, "seed_name": s.name, "mutation": 0, "fixture": true, "input_len": s.bytes.len(), "what": v.detail}));
                }
            }
            Status::Rejected => {
                // a real file the parser does not take is outside this property ("for every input that a parser accepts")
                ctx.obs(&format!("fixtures.{}.rejected_by_parser", s.format), 1);
            }
            Status::ParsePanicked => ctx.obs(&format!("fixtures.{}.parse_panicked_skipped", s.format), 1),
        }
    }
}

/// value -> bytes -> parse: projections must agree.
fn check_value<F: Fmt>(ctx: &Ctx, label: &str, value: &F) {
    check_value_keys(ctx, label, value, &[]);
}

/// `extra_keys`: keys of a map-backed text config that were set through its API (a key the writer drops
/// altogether does not show up among the candidate keys found in the serialisation).
fn check_value_keys<F: Fmt>(ctx: &Ctx, label: &str, value: &F, extra_keys: &[String]) {
    ctx.eval_nontrivial(mix64(fnv64(b"builder-value"), fnv64(label.as_bytes())));
    ctx.obs(&format!("builder_values.{}", F::NAME), 1);
    let r = catch_unwind(AssertUnwindSafe(|| -> Result<(), Viol> {
        let bytes = value.build_().map_err(|e| Viol { relation: "builder-value-changed", class: format!("build-fails:{}", err_class(&e)), detail: json!({"error": e}) })?;
        let parsed = F::parse_(&bytes).map_err(|e| Viol { relation: "builder-value-changed", class: format!("parse-fails:{}", err_class(&e)), detail: json!({"error": e, "bytes": hex_short(&bytes, 128)}) })?;
        let mut keys = if F::TEXT { candidate_keys(&[&bytes]) } else { Vec::new() };
        keys.extend(extra_keys.iter().cloned());
        keys.sort();
        keys.dedup();
        let (a, b) = (value.project(&keys), parsed.project(&keys));
        if let Some(((name, _), _)) = a.iter().zip(&b).find(|(x, y)| x != y) {
            return Err(Viol { relation: "builder-value-changed", class: (*name).to_string(), detail: json!({"component": name, "bytes_len": bytes.len(), "bytes": if F::TEXT { String::from_utf8_lossy(&bytes).chars().take(400).collect::<String>() } else { hex_short(&bytes, 64) }}) });
        }
        // the second serialisation of a builder value is the first one
        let again = parsed.build_().map_err(|e| Viol { relation: "builder-value-changed", class: format!("second-build-fails:{}", err_class(&e)), detail: json!({"error": e}) })?;
        if again != bytes {
            return Err(Viol { relation: "builder-value-changed", class: "not-fixed-point".into(), detail: json!({"first_len": bytes.len(), "second_len": again.len()}) });
        }
        Ok(())
    }));
    match r {
        Ok(Ok(())) => {}
        Ok(Err(v)) => report(ctx, &signature(F::NAME, &v), v.relation, json!({"format": F::NAME, "builder_value": label, "what": v.detail})),
        Err(_) => {
            let site = take_panic();
            report(ctx, &format!("C08|{}|builder-value-changed|panic:{site}", F::NAME), "builder-value-changed", json!({"format": F::NAME, "builder_value": label, "panic": site}));
        }
    }
}

/// Real BLTE-framed TVFS manifests: `TvfsFile::load_from_blte` must give the content of the plain manifest
/// stored next to them (and of parsing the decoded payload).
fn check_tvfs_blte_fixtures(ctx: &Ctx, seeds: &[Seed]) {
    use cascette_formats::tvfs::TvfsFile;
    for s in seeds.iter().filter(|s| s.fixture && s.format == "BlteFile" && s.name.starts_with("tvfs/") && s.name.ends_with(".blte")) {
        ctx.eval();
        let plain_name = s.name.replace(".blte", ".bin");
        let plain = seeds.iter().find(|p| p.name == plain_name);
        let r = catch_unwind(AssertUnwindSafe(|| -> Option<String> {
            let loaded = match TvfsFile::load_from_blte(&s.bytes) {
                Ok(l) => l,
                Err(e) => return Some(format!("load_from_blte:fails-on-real-file:{}", err_class(&format!("{e:?}")))),
            };
            ctx.obs("fixtures.tvfs_blte.load_from_blte_ok", 1);
            if let Some(p) = plain {
                match TvfsFile::parse(&p.bytes) {
                    Ok(q) => {
                        ctx.obs("fixtures.tvfs_blte.compared_with_plain_manifest", 1);
                        if let Some(((n, _), _)) = loaded.project(&[]).iter().zip(&q.project(&[])).find(|(a, b)| a != b) {
                            return Some(format!("load_from_blte:content-differs-from-plain-manifest:{n}"));
                        }
                    }
                    Err(_) => ctx.obs("fixtures.tvfs_blte.plain_manifest_rejected", 1),
                }
            }
            None
        }));
        let class = match r {
            Ok(c) => c,
            Err(_) => Some(format!("load_from_blte:panic:{}", take_panic())),
        };
        if let Some(class) = class {
            report(ctx, &format!("C08|TvfsFile|alt-entry-differs|{class}"), "alt-entry-differs", json!({"format": "TvfsFile", "seed_name": s.name, "fixture": true, "mutation": 0}));
        }
    }
}

fn check_builder_values(ctx: &Ctx) {
    use cascette_formats::archive::ArchiveIndexBuilder;
    let mut rng = ctx.rng(0xB01D);
    let rounds = ctx.pick(6, 60);
    for r in 0..rounds {
        for (n, kb) in [(1usize, 1u16), (27, 1), (28, 1), (200, 2), (400, 4)] {
            if let Some(v) = seeds::encoding_value(&mut rng, n, kb, r % 2 == 0) {
                check_value(ctx, &format!("encoding n={n} page={kb}K r={r}"), &v);
            }
        }
        for (name, v) in seeds::blte_values(&mut rng) {
            check_value(ctx, &format!("blte {name} r={r}"), &v);
        }
        for n in [0usize, 1, 8, 9, 17, 64] {
            if let Some(v) = seeds::install_value(&mut rng, n) {
                check_value(ctx, &format!("install n={n} r={r}"), &v);
            }
            for ver in 1..=3u8 {
                if let Some(v) = seeds::download_value(&mut rng, ver, n) {
                    check_value(ctx, &format!("download v{ver} n={n} r={r}"), &v);
                }
            }
            for ver in 1..=2u8 {
                if let Some(v) = seeds::size_value(&mut rng, ver, n) {
                    check_value(ctx, &format!("size v{ver} n={n} r={r}"), &v);
                }
            }
        }
        for (n, info) in [(1usize, false), (5, true), (60, true), (700, false)] {
            if let Ok(v) = seeds::patch_archive_builder(&mut rng, n, info).build_archive() {
                check_value(ctx, &format!("patch_archive n={n} info={info} r={r}"), &v);
            }
        }
        for (ks, ob, n) in [(16u8, 4u8, 3usize), (16, 4, 170), (16, 4, 171), (9, 4, 20), (16, 5, 20), (16, 6, 20)] {
            let mut b = ArchiveIndexBuilder::with_config(ks, ob, 4);
            for _ in 0..n {
                let mut k = rng.bytes(ks as usize);
                k[0] |= 1;
                b.add_entry(k, rng.next_u32().max(1), u64::from(rng.next_u32()));
            }
            if let Ok(v) = b.build(std::io::Cursor::new(Vec::new())) {
                check_value(ctx, &format!("archive_index key={ks} offset={ob} n={n} r={r}"), &v);
            }
        }
    }
}

fn replay(ctx: &Ctx, detail: &Value) {
    let fmt = detail.get("format").and_then(Value::as_str).unwrap_or("");
    let Some(fname) = FORMAT_NAMES.iter().find(|n| **n == fmt) else {
        ctx.inconclusive("replay file names no format");
        return;
    };
    if detail.get("builder_value").is_some() {
        check_builder_values(ctx);
        values::run(ctx);
        return;
    }
    let (seeds, _, _) = all_seeds(ctx.seed);
    let name = detail.get("seed_name").and_then(Value::as_str).unwrap_or("");
    let mutation = detail.get("mutation").and_then(Value::as_u64).unwrap_or(0) as u32;
    let Some(si) = seeds.iter().position(|s| s.name == name) else {
        ctx.inconclusive("replay: seed input not found (fixtures changed?)");
        return;
    };
    if mutation == 0 && seeds[si].fixture && seeds[si].format == *fname {
        check_fixtures(ctx, &seeds[si..=si]);
    } else if mutation == 0 && seeds[si].fixture && *fname == "TvfsFile" && name.ends_with(".blte") {
        check_tvfs_blte_fixtures(ctx, &seeds);
    } else {
        let (x, _) = make_input(ctx.seed, &seeds, Entry { fmt: fmt_index(fname), seed: si, mutation });
        let d = drive_named(fname, &x, mutation == 0 && seeds[si].format == *fname);
        if let Ok(dir) = std::env::var("C08_DUMP") {
            let _ = std::fs::create_dir_all(&dir);
            let _ = std::fs::write(format!("{dir}/x.bin"), &x);
            let _ = std::fs::write(format!("{dir}/p0.txt"), dump_named(fname, &x));
            if let Some(b1) = &d.b1 {
                let _ = std::fs::write(format!("{dir}/b1.bin"), b1);
                let _ = std::fs::write(format!("{dir}/p1.txt"), dump_named(fname, b1));
            }
        }
        ctx.eval();
        for v in d.viols {
            report(ctx, &signature(fname, &v), v.relation, json!({"format": fname, "seed_name": name, "mutation": mutation, "input_len": x.len(), "what": v.detail}));
        }
    }
    ctx.nontrivial(1);
    ctx.nontrivial(2);
}

fn main() {
    let argv: Vec<String> = std::env::args().collect();
    if argv.iter().any(|a| a == "--worker") {
        worker_main(&argv);
    }
    let ctx = Ctx::init("C08", "exploration");
    ctx.set_rule("a case is one input offered to one format parser: an unmutated fixture, a builder output, or a mutation of one (bit flips, interesting 8/16/24/32-bit values BE/LE and field+-1 in the first 256 / last 64 bytes, truncation, splice, duplicated/deleted region, append; line edits for text formats); only accepted inputs are judged; non-trivial = accepted, mutated and different from every fixture; distinct by hash of (format, input bytes)");
    ctx.assume("logical content is compared through harness-written projections over public fields / accessors (entries, keys, sizes, flags, tags, versions), not through raw-byte caches kept for exact rebuild");
    ctx.assume("extension sub-checks (verify_round_trip, alternative readers/writers, from_* builder identity + remove/add programs against a set model, derived views) run on every canonical input and on a third of the mutated accepted inputs that the main oracle found clean");
    ctx.assume("inputs on which a parser panics, or on which the worker process dies / hangs (allocation bomb, abort), are skipped with an observation: they are judged by C02");
    install_panic_hook();
    if let Some(detail) = ctx.replay_detail() {
        replay(&ctx, &detail);
        ctx.finish();
    }
    let (seeds, found, unattributed) = all_seeds(ctx.seed);
    ctx.obs("fixture_files_found", found as u64);
    ctx.obs("seeds.fixture", seeds.iter().filter(|s| s.fixture).count() as u64);
    ctx.obs("seeds.builder_output", seeds.iter().filter(|s| !s.fixture).count() as u64);
    ctx.set_extra("fixture_files_not_attributed_to_a_format", json!(unattributed));
    let mut per: BTreeMap<&str, (u64, u64)> = BTreeMap::new();
    for s in &seeds {
        let e = per.entry(s.format).or_insert((0, 0));
        if s.fixture { e.0 += 1 } else { e.1 += 1 }
    }
    ctx.set_extra("seeds_per_format(fixtures,builder_outputs)", json!(per));
    if seeds.iter().filter(|s| s.fixture).count() == 0 {
        ctx.inconclusive("no fixture file could be read from /repo/crates/cascette-formats/test_fixtures");
        ctx.finish();
    }
    check_fixtures(&ctx, &seeds);
    check_tvfs_blte_fixtures(&ctx, &seeds);
    check_builder_values(&ctx);
    values::run(&ctx);
    run_workers(&ctx, &seeds);
    for f in FORMAT_NAMES {
        if ctx.get_obs(&format!("{f}.accepted")) == 0 {
            ctx.inconclusive(&format!("no accepted input was observed for format {f}"));
        }
    }
    // the extension sub-checks are relied upon: a run in which one of them never executed proves nothing about it
    for k in [
        "x.verify_round_trip.ok", "x.verify_round_trip.err", "x.verify_round_trip.on_rejected", "x.install.inherent_verify_round_trip", "x.encoding.build_blte+parse_blte", "x.encoding.from_encoding_file",
        "x.encoding.builder_edit", "x.archive_index.write_to", "x.archive_index.chunked_open", "x.archive_index.from_archive_index", "x.archive_index.builder_edit", "x.root.from_root_file", "x.root.builder_edit",
        "x.root.header_write_read.tsfm", "x.root.header_write_read.mfst", "x.install.from_manifest", "x.install.builder_edit", "x.download.from_manifest", "x.download.builder_edit", "x.tvfs.load_from_blte.single-zlib",
        "x.tvfs.load_from_blte.multi-none", "x.tvfs.views", "x.bpsv.writer", "x.product_config.build_compact", "x.espec.free_parse+validate", "x.build_config.typed_views.valid_config", "x.cdn_config.typed_views",
        "x.patch_archive.views", "x.patch_index.views", "x.zbsdiff.views", "fixtures.tvfs_blte.compared_with_plain_manifest", "builder_programs.RootFile", "builder_programs.PatchIndex", "builder_programs.ArchiveIndex",
        "builder_values.BuildConfig", "builder_values.CdnConfig", "builder_values.PatchConfig", "builder_values.KeyringConfig", "builder_values.BpsvDocument", "builder_values.ESpec",
        "builder_programs.EncodingFile", "builder_programs.EncodingFile.ckey_page.full-to-the-last-byte", "builder_programs.EncodingFile.ekey_page.full-to-the-last-byte", "builder_programs.TvfsFile",
        "builder_programs.TvfsFile.component.2-fragment", "builder_programs.TvfsFile.component.3-fragment", "builder_programs.TvfsFile.component.character-across-a-fragment-boundary",
    ] {
        if ctx.get_obs(k) == 0 {
            ctx.inconclusive(&format!("extension sub-check never ran: {k}"));
        }
    }
    let mut table = BTreeMap::new();
    for f in FORMAT_NAMES {
        table.insert(f, json!({"accepted": ctx.get_obs(&format!("{f}.accepted")), "rejected": ctx.get_obs(&format!("{f}.rejected")), "accepted_non_canonical": ctx.get_obs(&format!("{f}.accepted_non_canonical")), "parse_panicked_skipped": ctx.get_obs(&format!("{f}.parse_panicked_skipped"))}));
    }
    ctx.set_extra("per_format", json!(table));
    ctx.finish();
}
