//! Wing–Gong style linearizability checker with memoisation (Lowe's
//! optimisation): searches for a total order of the operations that respects
//! real-time precedence (an operation that returned before another was called
//! comes first) and is accepted by a sequential, possibly non-deterministic,
//! model. Histories here are tiny (<= 64 operations), so the search is exact.

use std::collections::HashSet;
use std::hash::Hash;

pub trait Model {
    type State: Clone + Eq + Hash;
    type Op;
    /// All states the sequential object may be in after `op` *with the
    /// observed result* is applied in `state`; empty = the observed result is
    /// impossible in this state.
    fn step(&self, state: &Self::State, op: &Self::Op) -> Vec<Self::State>;
}

#[derive(Debug, Clone)]
pub struct Event<Op> {
    /// logical call time (from one monotonic counter)
    pub call: u64,
    /// logical return time; u64::MAX for an operation that never returned
    pub ret: u64,
    pub op: Op,
}

#[derive(Debug, PartialEq, Eq)]
pub enum Verdict {
    Linearizable,
    NotLinearizable,
    /// search budget exhausted: inconclusive
    Budget,
}

pub fn check<M: Model>(model: &M, init: M::State, events: &[Event<M::Op>], max_steps: u64) -> Verdict {
    assert!(events.len() <= 64, "history too long for the bitmask checker");
    let n = events.len();
    let full: u64 = if n == 64 { u64::MAX } else { (1u64 << n) - 1 };
    let mut seen: HashSet<(u64, M::State)> = HashSet::new();
    let mut stack: Vec<(u64, M::State)> = vec![(0, init)];
    let mut steps = 0u64;
    while let Some((mask, state)) = stack.pop() {
        if mask == full {
            return Verdict::Linearizable;
        }
        // pending operations (never returned) need not be linearized
        if (0..n).all(|i| mask & (1 << i) != 0 || events[i].ret == u64::MAX) {
            return Verdict::Linearizable;
        }
        if !seen.insert((mask, state.clone())) {
            continue;
        }
        steps += 1;
        if steps > max_steps {
            return Verdict::Budget;
        }
        // minimal return time among not-yet-linearized operations
        let min_ret = (0..n)
            .filter(|i| mask & (1 << i) == 0)
            .map(|i| events[i].ret)
            .min()
            .unwrap_or(u64::MAX);
        for i in 0..n {
            if mask & (1 << i) != 0 {
                continue;
            }
            // i may go next only if no other pending op returned before i was called
            if events[i].call > min_ret {
                continue;
            }
            for next in model.step(&state, &events[i].op) {
                stack.push((mask | (1 << i), next));
            }
        }
    }
    Verdict::NotLinearizable
}
