//! Small monitors shared by several properties.

pub mod watchdog;
