//! Small monitors shared by several properties.

pub mod baton;
pub mod linz;
pub mod watchdog;
