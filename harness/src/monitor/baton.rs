//! Baton scheduler: deterministic, replayable interleaving of a few OS
//! threads at `sched_point` hook sites.
//!
//! Each task of an execution runs on its own OS thread. Exactly one task runs
//! at a time ("holds the baton"); at every hook site the running task records
//! (task, site), asks the controller which task runs next (seeded PRNG or a
//! recorded order when replaying) and parks until it is handed the baton
//! again. Hook sites are never inside a lock/guard scope, so a parked task
//! holds no lock another task needs. If the running task neither reaches a
//! hook nor finishes within `stall_limit` (it is blocked on something a parked
//! task owns), everybody is released ("free-running fallback"); the execution
//! is still checked, but counted separately.
//!
//! The repository's hook is a process-global callback; it dispatches through
//! a thread-local handle, so many executions can run in parallel on disjoint
//! thread groups.

use crate::prng::Rng;
use std::cell::RefCell;
use std::sync::{Arc, Condvar, Mutex};
use std::time::Duration;

pub type Site = &'static str;

struct State {
    n: usize,
    /// task currently allowed to run (None before start)
    current: Option<usize>,
    parked: Vec<bool>,
    finished: Vec<bool>,
    trace: Vec<(u8, Site)>,
    rng: Rng,
    /// recorded order to replay (task ids in decision order)
    script: Option<Vec<u8>>,
    script_pos: usize,
    decisions: Vec<u8>,
    /// candidates that were available at each decision (for systematic exploration)
    choices: Vec<Vec<u8>>,
    free_running: bool,
    /// probability (out of 100) of switching away at a hook
    switch_pct: u64,
    max_trace: usize,
}

pub struct Baton {
    st: Mutex<State>,
    cv: Condvar,
    stall_limit: Duration,
}

pub struct Outcome {
    /// (task, site) in execution order
    pub trace: Vec<(u8, Site)>,
    /// scheduling decisions (task ids) — replay script
    pub decisions: Vec<u8>,
    /// the runnable tasks at each decision, ascending; `decisions[i]` is one of `choices[i]`
    pub choices: Vec<Vec<u8>>,
    pub free_running_fallback: bool,
    /// panic messages of task closures (task id, message)
    pub panics: Vec<(usize, String)>,
}

enum Handler {
    Baton(Arc<Baton>, usize),
    Jitter(RefCell<Rng>, u64),
}

thread_local! {
    static HANDLER: RefCell<Option<Handler>> = const { RefCell::new(None) };
}

/// The function to install as the repository's controller (both crates).
pub fn dispatch(site: Site) {
    // Take what we need out of the thread-local before blocking.
    enum Act {
        None,
        Baton(Arc<Baton>, usize),
        Spin(u64),
    }
    let act = HANDLER.with(|h| match &*h.borrow() {
        None => Act::None,
        Some(Handler::Baton(b, id)) => Act::Baton(Arc::clone(b), *id),
        Some(Handler::Jitter(rng, max_ns)) => {
            let mut r = rng.borrow_mut();
            match r.below(4) {
                0 => Act::None,
                1 => Act::Spin(0), // yield
                _ => Act::Spin(r.below(*max_ns + 1)),
            }
        }
    });
    match act {
        Act::None => {}
        Act::Baton(b, id) => b.at_site(id, site),
        Act::Spin(0) => std::thread::yield_now(),
        Act::Spin(ns) => {
            let t = std::time::Instant::now();
            while (t.elapsed().as_nanos() as u64) < ns {
                std::hint::spin_loop();
            }
        }
    }
}

/// Install `dispatch` as the controller of every instrumented crate.
pub fn install_global_controller() {
    let c: Arc<dyn Fn(&'static str) + Send + Sync> = Arc::new(dispatch);
    cascette_cache::verif_hooks::set_controller(Some(Arc::clone(&c)));
    cascette_client_storage::verif_hooks::set_controller(Some(c));
}

/// Make the current thread inject random spins/yields at hook sites
/// (free-running stress mode).
pub fn set_thread_jitter(rng: Rng, max_ns: u64) {
    HANDLER.with(|h| *h.borrow_mut() = Some(Handler::Jitter(RefCell::new(rng), max_ns)));
}

pub fn clear_thread_handler() {
    HANDLER.with(|h| *h.borrow_mut() = None);
}

impl Baton {
    pub fn new(n: usize, rng: Rng, script: Option<Vec<u8>>, switch_pct: u64, stall_limit: Duration) -> Arc<Self> {
        Arc::new(Self {
            st: Mutex::new(State {
                n,
                current: None,
                parked: vec![false; n],
                finished: vec![false; n],
                trace: Vec::new(),
                rng,
                script,
                script_pos: 0,
                decisions: Vec::new(),
                choices: Vec::new(),
                free_running: false,
                switch_pct,
                max_trace: 4096,
            }),
            cv: Condvar::new(),
            stall_limit,
        })
    }

    fn lock(&self) -> std::sync::MutexGuard<'_, State> {
        self.st.lock().unwrap_or_else(std::sync::PoisonError::into_inner)
    }

    /// Choose the next task among the unfinished ones. `me` is the task at the
    /// decision point (None when it just finished).
    fn choose(st: &mut State, me: Option<usize>) -> Option<usize> {
        let candidates: Vec<usize> = (0..st.n).filter(|&i| !st.finished[i]).collect();
        if candidates.is_empty() {
            return None;
        }
        let pick = if let Some(script) = &st.script {
            let want = script.get(st.script_pos).copied();
            st.script_pos += 1;
            match want {
                Some(w) if candidates.contains(&(w as usize)) => w as usize,
                _ => candidates[0],
            }
        } else {
            match me {
                Some(m) if !st.finished[m] && candidates.len() > 1 => {
                    if st.rng.below(100) < st.switch_pct {
                        let others: Vec<usize> = candidates.iter().copied().filter(|&c| c != m).collect();
                        others[st.rng.usize_below(others.len())]
                    } else {
                        m
                    }
                }
                _ => candidates[st.rng.usize_below(candidates.len())],
            }
        };
        st.decisions.push(pick as u8);
        st.choices.push(candidates.iter().map(|&c| c as u8).collect());
        Some(pick)
    }

    /// Wait until this task holds the baton (or everybody was released).
    fn park_until_mine<'a>(&'a self, mut st: std::sync::MutexGuard<'a, State>, id: usize) {
        st.parked[id] = true;
        loop {
            if st.free_running || st.current == Some(id) {
                break;
            }
            let (g, to) = self
                .cv
                .wait_timeout(st, self.stall_limit)
                .unwrap_or_else(std::sync::PoisonError::into_inner);
            st = g;
            if to.timed_out() && !st.free_running && st.current != Some(id) {
                // The running task made no progress for stall_limit: is it parked? (then
                // it is simply waiting like us — impossible by construction) otherwise it
                // is blocked: release everybody.
                if let Some(cur) = st.current {
                    if !st.parked[cur] && !st.finished[cur] {
                        st.free_running = true;
                        self.cv.notify_all();
                    }
                }
            }
        }
        st.parked[id] = false;
    }

    /// Called by a task thread before its first operation.
    pub fn task_start(&self, id: usize) {
        let st = self.lock();
        self.cv.notify_all();
        self.park_until_mine(st, id);
    }

    /// Called (through the hook) at every scheduling point.
    pub fn at_site(&self, id: usize, site: Site) {
        let mut st = self.lock();
        if st.trace.len() < st.max_trace {
            st.trace.push((id as u8, site));
        }
        if st.free_running {
            return;
        }
        let next = Self::choose(&mut st, Some(id));
        if next == Some(id) {
            return;
        }
        st.current = next;
        self.cv.notify_all();
        self.park_until_mine(st, id);
    }

    /// Called by a task thread after its last operation.
    pub fn task_finish(&self, id: usize) {
        let mut st = self.lock();
        st.finished[id] = true;
        if !st.free_running {
            let next = Self::choose(&mut st, None);
            st.current = next;
        }
        self.cv.notify_all();
    }

    /// Main thread: wait until all tasks are parked at start, then hand the
    /// baton to the first one.
    pub fn start_when_all_parked(&self) {
        let mut st = self.lock();
        let deadline = std::time::Instant::now() + Duration::from_secs(10);
        while !(0..st.n).all(|i| st.parked[i] || st.finished[i]) {
            let (g, _) = self
                .cv
                .wait_timeout(st, Duration::from_millis(20))
                .unwrap_or_else(std::sync::PoisonError::into_inner);
            st = g;
            if std::time::Instant::now() > deadline {
                st.free_running = true;
                break;
            }
        }
        let next = Self::choose(&mut st, None);
        st.current = next;
        self.cv.notify_all();
    }

    pub fn outcome(&self) -> Outcome {
        let st = self.lock();
        Outcome {
            trace: st.trace.clone(),
            decisions: st.decisions.clone(),
            choices: st.choices.clone(),
            free_running_fallback: st.free_running,
            panics: Vec::new(),
        }
    }
}

/// Run `tasks` (one closure per task, each executed on its own OS thread)
/// under the baton. Returns when all have finished.
pub fn run_scheduled(
    tasks: Vec<Box<dyn FnOnce() + Send>>,
    rng: Rng,
    script: Option<Vec<u8>>,
    switch_pct: u64,
) -> Outcome {
    let n = tasks.len();
    let baton = Baton::new(n, rng, script, switch_pct, Duration::from_millis(1500));
    let mut handles = Vec::with_capacity(n);
    for (id, task) in tasks.into_iter().enumerate() {
        let b = Arc::clone(&baton);
        handles.push(std::thread::spawn(move || {
            HANDLER.with(|h| *h.borrow_mut() = Some(Handler::Baton(Arc::clone(&b), id)));
            b.task_start(id);
            let r = std::panic::catch_unwind(std::panic::AssertUnwindSafe(task));
            HANDLER.with(|h| *h.borrow_mut() = None);
            b.task_finish(id);
            r
        }));
    }
    baton.start_when_all_parked();
    let mut panics = Vec::new();
    for (id, h) in handles.into_iter().enumerate() {
        match h.join() {
            Ok(Ok(())) => {}
            Ok(Err(p)) => panics.push((id, super::watchdog::panic_message(&p))),
            Err(p) => panics.push((id, super::watchdog::panic_message(&p))),
        }
    }
    let mut out = baton.outcome();
    out.panics = panics;
    out
}
