//! Run a closure on a helper thread with a wall-clock watchdog. A firing
//! watchdog is *not* a verdict by itself — callers re-run and classify.

use std::sync::mpsc;
use std::time::Duration;

pub enum Outcome<T> {
    Done(T),
    Panicked(String),
    TimedOut,
}

/// Runs `f` on a fresh thread; returns TimedOut if it does not finish within
/// `limit` (the thread is leaked in that case).
pub fn run_with_timeout<T: Send + 'static>(
    limit: Duration,
    f: impl FnOnce() -> T + Send + 'static,
) -> Outcome<T> {
    let (tx, rx) = mpsc::channel();
    let handle = std::thread::Builder::new()
        .stack_size(16 << 20)
        .spawn(move || {
            let r = std::panic::catch_unwind(std::panic::AssertUnwindSafe(f));
            let _ = tx.send(r);
        });
    let Ok(_handle) = handle else {
        return Outcome::Panicked("could not spawn thread".into());
    };
    match rx.recv_timeout(limit) {
        Ok(Ok(v)) => Outcome::Done(v),
        Ok(Err(p)) => Outcome::Panicked(panic_message(&p)),
        Err(_) => Outcome::TimedOut,
    }
}

pub fn panic_message(p: &Box<dyn std::any::Any + Send>) -> String {
    if let Some(s) = p.downcast_ref::<&str>() {
        (*s).to_string()
    } else if let Some(s) = p.downcast_ref::<String>() {
        s.clone()
    } else {
        "non-string panic payload".to_string()
    }
}
