//! `vh` — verification harness for cascette-rs (runtime monitoring family).
//!
//! One binary per property lives in `src/bin/cNN.rs`; this library holds what
//! they share: seeded PRNG, run context (evidence file, known-findings
//! matching, verdict / exit code), reference implementations written
//! independently of /repo, payload generators and small monitors.

pub mod ctx;
pub mod genx;
pub mod monitor;
pub mod prng;
pub mod refimpl;

pub use ctx::{Ctx, Tier};
pub use prng::Rng;

/// FNV-1a 64-bit, used for "distinct case" hashing.
pub fn fnv64(data: &[u8]) -> u64 {
    let mut h: u64 = 0xcbf2_9ce4_8422_2325;
    for &b in data {
        h ^= u64::from(b);
        h = h.wrapping_mul(0x0000_0100_0000_01b3);
    }
    h
}

/// Combine hashes.
pub fn mix64(a: u64, b: u64) -> u64 {
    let mut z = a ^ b.wrapping_add(0x9e37_79b9_7f4a_7c15).wrapping_add(a << 6).wrapping_add(a >> 2);
    z = (z ^ (z >> 30)).wrapping_mul(0xbf58_476d_1ce4_e5b9);
    z = (z ^ (z >> 27)).wrapping_mul(0x94d0_49bb_1331_11eb);
    z ^ (z >> 31)
}

/// Short hex rendering for samples (truncated with length suffix).
pub fn hex_short(data: &[u8], max: usize) -> String {
    if data.len() <= max {
        hex::encode(data)
    } else {
        format!("{}..(+{} bytes)", hex::encode(&data[..max]), data.len() - max)
    }
}
