//! Seeded PRNG (xoshiro256** seeded through SplitMix64). Everything random in
//! the harness derives from `VERIF_SEED`.

#[derive(Clone, Debug)]
pub struct Rng {
    s: [u64; 4],
}

fn splitmix(x: &mut u64) -> u64 {
    *x = x.wrapping_add(0x9e37_79b9_7f4a_7c15);
    let mut z = *x;
    z = (z ^ (z >> 30)).wrapping_mul(0xbf58_476d_1ce4_e5b9);
    z = (z ^ (z >> 27)).wrapping_mul(0x94d0_49bb_1331_11eb);
    z ^ (z >> 31)
}

impl Rng {
    pub fn new(seed: u64) -> Self {
        let mut x = seed;
        let s = [splitmix(&mut x), splitmix(&mut x), splitmix(&mut x), splitmix(&mut x)];
        Self { s }
    }
    /// Independent stream derived from (seed, stream).
    pub fn derive(seed: u64, stream: u64) -> Self {
        Self::new(crate::mix64(seed, stream))
    }
    pub fn next_u64(&mut self) -> u64 {
        let r = self.s[1].wrapping_mul(5).rotate_left(7).wrapping_mul(9);
        let t = self.s[1] << 17;
        self.s[2] ^= self.s[0];
        self.s[3] ^= self.s[1];
        self.s[1] ^= self.s[2];
        self.s[0] ^= self.s[3];
        self.s[2] ^= t;
        self.s[3] = self.s[3].rotate_left(45);
        r
    }
    pub fn next_u32(&mut self) -> u32 {
        (self.next_u64() >> 32) as u32
    }
    /// Uniform in [0, n) (n > 0).
    pub fn below(&mut self, n: u64) -> u64 {
        assert!(n > 0);
        // multiply-shift; bias negligible for our n
        ((u128::from(self.next_u64()) * u128::from(n)) >> 64) as u64
    }
    pub fn usize_below(&mut self, n: usize) -> usize {
        self.below(n as u64) as usize
    }
    /// Uniform in [lo, hi] inclusive.
    pub fn range(&mut self, lo: u64, hi: u64) -> u64 {
        assert!(lo <= hi);
        if lo == 0 && hi == u64::MAX {
            return self.next_u64();
        }
        lo + self.below(hi - lo + 1)
    }
    pub fn urange(&mut self, lo: usize, hi: usize) -> usize {
        self.range(lo as u64, hi as u64) as usize
    }
    /// true with probability num/den
    pub fn chance(&mut self, num: u64, den: u64) -> bool {
        self.below(den) < num
    }
    pub fn bool(&mut self) -> bool {
        self.next_u64() & 1 == 1
    }
    pub fn fill(&mut self, buf: &mut [u8]) {
        for chunk in buf.chunks_mut(8) {
            let v = self.next_u64().to_le_bytes();
            chunk.copy_from_slice(&v[..chunk.len()]);
        }
    }
    pub fn bytes(&mut self, n: usize) -> Vec<u8> {
        let mut v = vec![0u8; n];
        self.fill(&mut v);
        v
    }
    pub fn array<const N: usize>(&mut self) -> [u8; N] {
        let mut a = [0u8; N];
        self.fill(&mut a);
        a
    }
    pub fn pick<'a, T>(&mut self, items: &'a [T]) -> &'a T {
        &items[self.usize_below(items.len())]
    }
    pub fn shuffle<T>(&mut self, items: &mut [T]) {
        for i in (1..items.len()).rev() {
            let j = self.usize_below(i + 1);
            items.swap(i, j);
        }
    }
    /// Size biased towards small values and boundaries: picks among
    /// 0, 1, small, around powers of two, uniform up to max.
    pub fn size_biased(&mut self, max: usize) -> usize {
        if max == 0 {
            return 0;
        }
        match self.below(10) {
            0 => 0,
            1 => 1.min(max),
            2 | 3 => self.urange(0, 16.min(max)),
            4 | 5 => {
                let k = self.below(20) as u32;
                let p = 1usize << k;
                let d = self.urange(0, 2);
                (p + d).saturating_sub(1).min(max)
            }
            6 | 7 => self.urange(0, 300.min(max)),
            _ => self.urange(0, max),
        }
    }
}
