//! Independent BLTE container decoder written from the format description
//! (wowdev.wiki BLTE + the repository's documented LZ4 sub-layout), used as a
//! second opinion next to `BlteFile::parse` + `decompress*`.
//!
//! Layout: "BLTE", u32 BE header_size. header_size == 0: one chunk = rest of
//! file. Otherwise: u8 table format (0x0F: 24-byte entries, 0x10: 40-byte
//! entries), u24 BE chunk count, entries {u32 BE compressed size, u32 BE
//! decompressed size, MD5 of the stored chunk bytes[, MD5 of decoded bytes]};
//! header_size = 12 + count * entry size; chunks follow back to back.
//! Chunk = mode byte + body: 'N' raw; 'Z' zlib; '4' 8-byte LE decoded size +
//! one LZ4 block (repository layout); 'F' nested BLTE; 'E' u8 name_len(8),
//! key name (u64 LE), u8 iv_len (4|8), iv, u8 type ('S' Salsa20 | 'A' ARC4),
//! ciphertext — the plaintext is again a chunk (mode byte + body, not 'E');
//! the Salsa20 nonce is iv XOR chunk index (position of the chunk in the file).

use super::{lz4, rc4, salsa20};
use std::io::Read;

#[derive(Debug, Clone)]
pub struct ChunkView {
    pub table_compressed_size: Option<u32>,
    pub table_decompressed_size: Option<u32>,
    pub table_checksum: Option<[u8; 16]>,
    pub table_decompressed_checksum: Option<[u8; 16]>,
    /// byte range of the stored chunk (mode byte included) in the file
    pub start: usize,
    pub end: usize,
    pub mode: u8,
    pub decoded: Vec<u8>,
}

#[derive(Debug, Clone)]
pub struct Decoded {
    pub header_size: u32,
    pub table_format: Option<u8>,
    pub chunks: Vec<ChunkView>,
}

impl Decoded {
    pub fn content(&self) -> Vec<u8> {
        let mut v = Vec::new();
        for c in &self.chunks {
            v.extend_from_slice(&c.decoded);
        }
        v
    }
}

pub type KeyLookup<'a> = &'a dyn Fn(u64) -> Option<[u8; 16]>;

const LIMIT: usize = 1 << 30;

fn decode_chunk(stored: &[u8], index: u32, keys: KeyLookup<'_>, depth: u32, allow_e: bool) -> Result<Vec<u8>, String> {
    let Some((&mode, body)) = stored.split_first() else {
        return Err("empty chunk (no mode byte)".into());
    };
    match mode {
        b'N' => Ok(body.to_vec()),
        b'Z' => {
            let mut out = Vec::new();
            flate2::read::ZlibDecoder::new(body)
                .take(LIMIT as u64 + 1)
                .read_to_end(&mut out)
                .map_err(|e| format!("zlib: {e}"))?;
            if out.len() > LIMIT {
                return Err("zlib output over limit".into());
            }
            Ok(out)
        }
        b'4' => {
            if body.len() < 8 {
                return Err("lz4: missing size prefix".into());
            }
            let n = u64::from_le_bytes(body[..8].try_into().map_err(|_| "lz4 size")?);
            if n > LIMIT as u64 {
                return Err("lz4 size over limit".into());
            }
            let out = lz4::decode_block(&body[8..], n as usize)?;
            if out.len() as u64 != n {
                return Err(format!("lz4: decoded {} bytes, prefix says {n}", out.len()));
            }
            Ok(out)
        }
        b'F' => {
            if depth > 8 {
                return Err("frame nesting too deep".into());
            }
            let inner = decode_depth(body, keys, depth + 1)?;
            Ok(inner.content())
        }
        b'E' => {
            if !allow_e {
                return Err("nested encryption".into());
            }
            let mut o = 0usize;
            let name_len = *body.get(o).ok_or("E: truncated")? as usize;
            o += 1;
            if name_len != 8 || body.len() < o + 8 {
                return Err("E: bad key name length".into());
            }
            let name = u64::from_le_bytes(body[o..o + 8].try_into().map_err(|_| "E name")?);
            o += 8;
            let iv_len = *body.get(o).ok_or("E: truncated iv len")? as usize;
            o += 1;
            if (iv_len != 4 && iv_len != 8) || body.len() < o + iv_len {
                return Err("E: bad iv".into());
            }
            let iv = &body[o..o + iv_len];
            o += iv_len;
            let typ = *body.get(o).ok_or("E: truncated type")?;
            o += 1;
            let key = keys(name).ok_or_else(|| format!("E: key {name:#018x} not available"))?;
            let ct = &body[o..];
            let pt = match typ {
                b'S' => salsa20::casc_crypt(&key, iv, index, ct).ok_or("E: salsa iv")?,
                b'A' => rc4::crypt(&key, ct).ok_or("E: rc4 key")?,
                t => return Err(format!("E: unknown cipher {t:#x}")),
            };
            decode_chunk(&pt, index, keys, depth, false)
        }
        m => Err(format!("unknown chunk mode {m:#04x}")),
    }
}

fn decode_depth(data: &[u8], keys: KeyLookup<'_>, depth: u32) -> Result<Decoded, String> {
    if data.len() < 8 || &data[..4] != b"BLTE" {
        return Err("no BLTE magic".into());
    }
    let header_size = u32::from_be_bytes([data[4], data[5], data[6], data[7]]);
    if header_size == 0 {
        let stored = &data[8..];
        let decoded = decode_chunk(stored, 0, keys, depth, true)?;
        return Ok(Decoded {
            header_size,
            table_format: None,
            chunks: vec![ChunkView {
                table_compressed_size: None,
                table_decompressed_size: None,
                table_checksum: None,
                table_decompressed_checksum: None,
                start: 8,
                end: data.len(),
                mode: stored[0],
                decoded,
            }],
        });
    }
    if data.len() < 12 {
        return Err("truncated table header".into());
    }
    let fmt = data[8];
    let entry = match fmt {
        0x0F => 24usize,
        0x10 => 40usize,
        f => return Err(format!("unknown table format {f:#x}")),
    };
    let count = (usize::from(data[9]) << 16) | (usize::from(data[10]) << 8) | usize::from(data[11]);
    if count == 0 {
        return Err("zero chunks".into());
    }
    let expect_hs = 12 + count * entry;
    if header_size as usize != expect_hs {
        return Err(format!("header_size {header_size} != 12 + {count}*{entry}"));
    }
    if data.len() < expect_hs {
        return Err("truncated chunk table".into());
    }
    let mut chunks = Vec::with_capacity(count.min(4096));
    let mut pos = expect_hs;
    for i in 0..count {
        let e = &data[12 + i * entry..12 + (i + 1) * entry];
        let cs = u32::from_be_bytes([e[0], e[1], e[2], e[3]]);
        let ds = u32::from_be_bytes([e[4], e[5], e[6], e[7]]);
        let mut ck = [0u8; 16];
        ck.copy_from_slice(&e[8..24]);
        let dck = if entry == 40 {
            let mut d = [0u8; 16];
            d.copy_from_slice(&e[24..40]);
            Some(d)
        } else {
            None
        };
        let end = pos.checked_add(cs as usize).ok_or("size overflow")?;
        if end > data.len() {
            return Err(format!("chunk {i} extends beyond file"));
        }
        let stored = &data[pos..end];
        let decoded = decode_chunk(stored, i as u32, keys, depth, true)?;
        chunks.push(ChunkView {
            table_compressed_size: Some(cs),
            table_decompressed_size: Some(ds),
            table_checksum: Some(ck),
            table_decompressed_checksum: dck,
            start: pos,
            end,
            mode: stored.first().copied().unwrap_or(0),
            decoded,
        });
        pos = end;
    }
    if pos != data.len() {
        return Err(format!("{} trailing bytes after last chunk", data.len() - pos));
    }
    Ok(Decoded { header_size, table_format: Some(fmt), chunks })
}

/// Decode a complete BLTE file.
pub fn decode(data: &[u8], keys: KeyLookup<'_>) -> Result<Decoded, String> {
    decode_depth(data, keys, 0)
}

/// Truthfulness of the chunk table against the stored chunks:
/// compressed size = bytes occupied, checksum = MD5(stored chunk bytes),
/// decompressed size = decoded length. Returns the first disagreement.
pub fn check_table(data: &[u8], d: &Decoded) -> Result<(), String> {
    for (i, c) in d.chunks.iter().enumerate() {
        let stored = &data[c.start..c.end];
        if let Some(cs) = c.table_compressed_size {
            if cs as usize != stored.len() {
                return Err(format!("chunk {i}: table compressed_size {cs} != stored {}", stored.len()));
            }
        }
        if let Some(ck) = c.table_checksum {
            let real = md5::compute(stored).0;
            if ck != real {
                return Err(format!("chunk {i}: table checksum != MD5(stored chunk)"));
            }
        }
        if let Some(ds) = c.table_decompressed_size {
            if ds as usize != c.decoded.len() {
                return Err(format!("chunk {i}: table decompressed_size {ds} != decoded length {}", c.decoded.len()));
            }
        }
        if let Some(dck) = c.table_decompressed_checksum {
            if dck != md5::compute(&c.decoded).0 {
                return Err(format!("chunk {i}: table decompressed checksum != MD5(decoded chunk)"));
            }
        }
    }
    Ok(())
}
