//! LZ4 block format decoder (from the LZ4 block format description).

/// Decode one LZ4 block. `max_out` bounds the output.
pub fn decode_block(src: &[u8], max_out: usize) -> Result<Vec<u8>, String> {
    let mut out: Vec<u8> = Vec::new();
    let mut i = 0usize;
    if src.is_empty() {
        return Ok(out);
    }
    loop {
        let token = *src.get(i).ok_or("lz4: truncated token")?;
        i += 1;
        let mut lit = (token >> 4) as usize;
        if lit == 15 {
            loop {
                let b = *src.get(i).ok_or("lz4: truncated literal length")?;
                i += 1;
                lit += b as usize;
                if b != 255 {
                    break;
                }
            }
        }
        if i + lit > src.len() {
            return Err("lz4: literal run beyond input".into());
        }
        if out.len() + lit > max_out {
            return Err("lz4: output limit".into());
        }
        out.extend_from_slice(&src[i..i + lit]);
        i += lit;
        if i == src.len() {
            return Ok(out); // last sequence has no match part
        }
        if i + 2 > src.len() {
            return Err("lz4: truncated offset".into());
        }
        let offset = usize::from(src[i]) | (usize::from(src[i + 1]) << 8);
        i += 2;
        if offset == 0 || offset > out.len() {
            return Err("lz4: bad offset".into());
        }
        let mut mlen = (token & 0x0f) as usize;
        if mlen == 15 {
            loop {
                let b = *src.get(i).ok_or("lz4: truncated match length")?;
                i += 1;
                mlen += b as usize;
                if b != 255 {
                    break;
                }
            }
        }
        mlen += 4;
        if out.len() + mlen > max_out {
            return Err("lz4: output limit".into());
        }
        let start = out.len() - offset;
        for k in 0..mlen {
            let b = out[start + k];
            out.push(b);
        }
    }
}

pub fn self_test() -> Result<(), String> {
    // literals only: token 0x50 + "hello"
    let v = decode_block(&[0x50, b'h', b'e', b'l', b'l', b'o'], 100)?;
    if v != b"hello" {
        return Err("lz4 reference: literal block".into());
    }
    // "aaaaaaaaaaaa" (12 x 'a'): 1 literal, match offset 1 len 4+2=6 ... then 5 literals (end rule)
    // token: lit=1, mlen=6-4=2 -> 0x12 'a' 01 00 ; last: token 0x50 + "aaaaa"
    let v = decode_block(&[0x12, b'a', 0x01, 0x00, 0x50, b'a', b'a', b'a', b'a', b'a'], 100)?;
    if v != b"aaaaaaaaaaaa" {
        return Err(format!("lz4 reference: overlap match -> {:?}", String::from_utf8_lossy(&v)));
    }
    Ok(())
}
