//! Salsa20/20 (D. J. Bernstein, "Salsa20 specification") with 128-bit keys
//! (tau constants "expand 16-byte k"), plus the CASC nonce convention:
//! 4-byte IV zero-padded to 8 (8-byte IV as is), block index XORed (LE u32)
//! into the first four nonce bytes.

fn qr(y: &mut [u32; 16], a: usize, b: usize, c: usize, d: usize) {
    // (y0,y1,y2,y3) = (a,b,c,d):  z1 = y1 ^ ((y0+y3)<<<7) ...
    y[b] ^= y[a].wrapping_add(y[d]).rotate_left(7);
    y[c] ^= y[b].wrapping_add(y[a]).rotate_left(9);
    y[d] ^= y[c].wrapping_add(y[b]).rotate_left(13);
    y[a] ^= y[d].wrapping_add(y[c]).rotate_left(18);
}

fn doubleround(x: &mut [u32; 16]) {
    // columnround
    qr(x, 0, 4, 8, 12);
    qr(x, 5, 9, 13, 1);
    qr(x, 10, 14, 2, 6);
    qr(x, 15, 3, 7, 11);
    // rowround
    qr(x, 0, 1, 2, 3);
    qr(x, 5, 6, 7, 4);
    qr(x, 10, 11, 8, 9);
    qr(x, 15, 12, 13, 14);
}

/// Salsa20 hash of a 16-word input.
fn salsa20_hash(input: &[u32; 16]) -> [u8; 64] {
    let mut x = *input;
    for _ in 0..10 {
        doubleround(&mut x);
    }
    let mut out = [0u8; 64];
    for i in 0..16 {
        out[i * 4..i * 4 + 4].copy_from_slice(&x[i].wrapping_add(input[i]).to_le_bytes());
    }
    out
}

fn le32(b: &[u8]) -> u32 {
    u32::from_le_bytes([b[0], b[1], b[2], b[3]])
}

/// 64-byte keystream block `counter` for a 128-bit key and 8-byte nonce.
pub fn block128(key: &[u8; 16], nonce: &[u8; 8], counter: u64) -> [u8; 64] {
    const TAU: [u32; 4] = [0x6170_7865, 0x3120_646e, 0x7962_2d36, 0x6b20_6574];
    let mut s = [0u32; 16];
    s[0] = TAU[0];
    s[1] = le32(&key[0..]);
    s[2] = le32(&key[4..]);
    s[3] = le32(&key[8..]);
    s[4] = le32(&key[12..]);
    s[5] = TAU[1];
    s[6] = le32(&nonce[0..]);
    s[7] = le32(&nonce[4..]);
    s[8] = counter as u32;
    s[9] = (counter >> 32) as u32;
    s[10] = TAU[2];
    s[11] = le32(&key[0..]);
    s[12] = le32(&key[4..]);
    s[13] = le32(&key[8..]);
    s[14] = le32(&key[12..]);
    s[15] = TAU[3];
    salsa20_hash(&s)
}

/// CASC nonce from IV (4 or 8 bytes) and block index.
pub fn casc_nonce(iv: &[u8], block_index: u32) -> Option<[u8; 8]> {
    if iv.len() != 4 && iv.len() != 8 {
        return None;
    }
    let mut n = [0u8; 8];
    n[..iv.len()].copy_from_slice(iv);
    let b = block_index.to_le_bytes();
    for i in 0..4 {
        n[i] ^= b[i];
    }
    Some(n)
}

/// XOR `data` with the keystream starting at byte offset `start` of the stream.
pub fn xor_stream(key: &[u8; 16], nonce: &[u8; 8], start: u64, data: &mut [u8]) {
    let mut pos = start;
    let mut i = 0;
    while i < data.len() {
        let blk = block128(key, nonce, pos / 64);
        let off = (pos % 64) as usize;
        let n = (64 - off).min(data.len() - i);
        for j in 0..n {
            data[i + j] ^= blk[off + j];
        }
        i += n;
        pos += n as u64;
    }
}

/// CASC Salsa20 encryption/decryption of a whole message.
pub fn casc_crypt(key: &[u8; 16], iv: &[u8], block_index: u32, data: &[u8]) -> Option<Vec<u8>> {
    let nonce = casc_nonce(iv, block_index)?;
    let mut out = data.to_vec();
    xor_stream(key, &nonce, 0, &mut out);
    Some(out)
}

pub fn self_test() -> Result<(), String> {
    // ECRYPT Salsa20 verified test vectors, 128-bit key, Set 1, vector# 0:
    // key = 80000000000000000000000000000000, IV = 0000000000000000
    // stream[0..63] =
    let mut key = [0u8; 16];
    key[0] = 0x80;
    let blk = block128(&key, &[0u8; 8], 0);
    let expect = "4DFA5E481DA23EA09A31022050859936DA52FCEE218005164F267CB65F5CFD7F2B4F97E0FF16924A52DF269515110A07F9E460BC65EF95DA58F740B7D1DBB0AA";
    if hex::encode_upper(blk) != expect {
        return Err(format!("salsa20 reference: ECRYPT set1 v0 mismatch: {}", hex::encode_upper(blk)));
    }
    // stream[192..255] of the same vector
    let blk3 = block128(&key, &[0u8; 8], 3);
    let expect3 = "DA9C1581F429E0A00F7D67E23B730676783B262E8EB43A25F55FB90B3E753AEF8C6713EC66C51881111593CCB3E8CB8F8DE124080501EEEB389C4BCB6977CF95";
    if hex::encode_upper(blk3) != expect3 {
        return Err(format!("salsa20 reference: ECRYPT set1 v0 block 3 mismatch: {}", hex::encode_upper(blk3)));
    }
    Ok(())
}
