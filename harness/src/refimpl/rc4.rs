//! RC4 (ARC4): KSA + PRGA as published.

pub struct Rc4 {
    s: [u8; 256],
    i: u8,
    j: u8,
}

impl Rc4 {
    pub fn new(key: &[u8]) -> Option<Self> {
        if key.is_empty() || key.len() > 256 {
            return None;
        }
        let mut s = [0u8; 256];
        for (i, v) in s.iter_mut().enumerate() {
            *v = i as u8;
        }
        let mut j: u8 = 0;
        for i in 0..256 {
            j = j.wrapping_add(s[i]).wrapping_add(key[i % key.len()]);
            s.swap(i, j as usize);
        }
        Some(Self { s, i: 0, j: 0 })
    }
    pub fn apply(&mut self, data: &mut [u8]) {
        for b in data {
            self.i = self.i.wrapping_add(1);
            self.j = self.j.wrapping_add(self.s[self.i as usize]);
            self.s.swap(self.i as usize, self.j as usize);
            let k = self.s[(self.s[self.i as usize].wrapping_add(self.s[self.j as usize])) as usize];
            *b ^= k;
        }
    }
}

pub fn crypt(key: &[u8], data: &[u8]) -> Option<Vec<u8>> {
    let mut c = Rc4::new(key)?;
    let mut out = data.to_vec();
    c.apply(&mut out);
    Some(out)
}

pub fn self_test() -> Result<(), String> {
    let cases: [(&[u8], &[u8], &str); 3] = [
        (b"Key", b"Plaintext", "bbf316e8d940af0ad3"),
        (b"Wiki", b"pedia", "1021bf0420"),
        (b"Secret", b"Attack at dawn", "45a01f645fc35b383552544b9bf5"),
    ];
    for (k, p, c) in cases {
        let got = hex::encode(crypt(k, p).ok_or("rc4 key")?);
        if got != c {
            return Err(format!("rc4 reference mismatch for key {:?}: {got}", String::from_utf8_lossy(k)));
        }
    }
    Ok(())
}
