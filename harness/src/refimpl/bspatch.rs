//! Independent ZBSDIFF1 applier (classic bsdiff 4.x layout with zlib instead
//! of bzip2): 32-byte header ("ZBSDIFF1", then control size, diff size — both
//! of the *compressed* blocks — and output size, each 8 bytes `offtin`), then
//! three zlib streams: control triples (diff_len, extra_len, seek), diff bytes,
//! extra bytes. `offtin` = little-endian magnitude in bits 0..62, sign in bit 63.
//! Classic bspatch semantics: new[i] = old[oldpos+i] + diff[i] (old bytes out of
//! range count as 0), then copy extra, then oldpos += seek (relative).

use std::io::Read;

pub struct Patch {
    pub control: Vec<(i64, i64, i64)>,
    pub diff: Vec<u8>,
    pub extra: Vec<u8>,
    pub output_size: i64,
}

/// bsdiff `offtin`: sign-magnitude, little-endian.
pub fn offtin(b: &[u8]) -> i64 {
    let mut y: i64 = i64::from(b[7] & 0x7f);
    for i in (0..7).rev() {
        y = y * 256 + i64::from(b[i]);
    }
    if b[7] & 0x80 != 0 { -y } else { y }
}

fn inflate(data: &[u8]) -> Result<Vec<u8>, String> {
    let mut out = Vec::new();
    let mut d = flate2::read::ZlibDecoder::new(data);
    d.read_to_end(&mut out).map_err(|e| format!("zlib: {e}"))?;
    Ok(out)
}

pub fn parse(patch: &[u8]) -> Result<Patch, String> {
    if patch.len() < 32 || &patch[..8] != b"ZBSDIFF1" {
        return Err("bad header".into());
    }
    let rd = |o: usize| offtin(&patch[o..o + 8]);
    let ctrl_sz = rd(8);
    let diff_sz = rd(16);
    let output_size = rd(24);
    if ctrl_sz < 0 || diff_sz < 0 || output_size < 0 {
        return Err("negative size".into());
    }
    let (c, d) = (ctrl_sz as usize, diff_sz as usize);
    if 32 + c + d > patch.len() {
        return Err("sizes beyond patch".into());
    }
    let control_raw = inflate(&patch[32..32 + c])?;
    let diff = inflate(&patch[32 + c..32 + c + d])?;
    let extra = inflate(&patch[32 + c + d..])?;
    if control_raw.len() % 24 != 0 {
        return Err("control block not a multiple of 24".into());
    }
    let control = control_raw
        .chunks(24)
        .map(|t| {
            let f = |o: usize| offtin(&t[o..o + 8]);
            (f(0), f(8), f(16))
        })
        .collect();
    Ok(Patch { control, diff, extra, output_size })
}

pub fn apply(old: &[u8], patch: &[u8]) -> Result<Vec<u8>, String> {
    let p = parse(patch)?;
    let mut out: Vec<u8> = Vec::with_capacity(p.output_size.min(1 << 26) as usize);
    let (mut oldpos, mut dpos, mut epos) = (0i64, 0usize, 0usize);
    for (dl, el, seek) in &p.control {
        if *dl < 0 || *el < 0 {
            return Err("negative length in control".into());
        }
        let (dl, el) = (*dl as usize, *el as usize);
        if dpos + dl > p.diff.len() || epos + el > p.extra.len() {
            return Err("control beyond diff/extra".into());
        }
        if out.len() + dl + el > p.output_size as usize {
            return Err("output beyond header size".into());
        }
        for i in 0..dl {
            let op = oldpos + i as i64;
            let o = if op >= 0 && (op as usize) < old.len() { old[op as usize] } else { 0 };
            out.push(o.wrapping_add(p.diff[dpos + i]));
        }
        dpos += dl;
        oldpos += dl as i64;
        out.extend_from_slice(&p.extra[epos..epos + el]);
        epos += el;
        oldpos += *seek;
    }
    if out.len() as i64 != p.output_size {
        return Err(format!("output {} != header {}", out.len(), p.output_size));
    }
    Ok(out)
}
