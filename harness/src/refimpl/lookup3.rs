//! Bob Jenkins' lookup3.c: hashlittle / hashlittle2, transcribed from the
//! byte-at-a-time (alignment independent) path of the reference source.

fn rot(x: u32, k: u32) -> u32 {
    x.rotate_left(k)
}

fn mix(a: &mut u32, b: &mut u32, c: &mut u32) {
    *a = a.wrapping_sub(*c); *a ^= rot(*c, 4);  *c = c.wrapping_add(*b);
    *b = b.wrapping_sub(*a); *b ^= rot(*a, 6);  *a = a.wrapping_add(*c);
    *c = c.wrapping_sub(*b); *c ^= rot(*b, 8);  *b = b.wrapping_add(*a);
    *a = a.wrapping_sub(*c); *a ^= rot(*c, 16); *c = c.wrapping_add(*b);
    *b = b.wrapping_sub(*a); *b ^= rot(*a, 19); *a = a.wrapping_add(*c);
    *c = c.wrapping_sub(*b); *c ^= rot(*b, 4);  *b = b.wrapping_add(*a);
}

fn final_mix(a: &mut u32, b: &mut u32, c: &mut u32) {
    *c ^= *b; *c = c.wrapping_sub(rot(*b, 14));
    *a ^= *c; *a = a.wrapping_sub(rot(*c, 11));
    *b ^= *a; *b = b.wrapping_sub(rot(*a, 25));
    *c ^= *b; *c = c.wrapping_sub(rot(*b, 16));
    *a ^= *c; *a = a.wrapping_sub(rot(*c, 4));
    *b ^= *a; *b = b.wrapping_sub(rot(*a, 14));
    *c ^= *b; *c = c.wrapping_sub(rot(*b, 24));
}

/// hashlittle2(key, *pc, *pb) -> (pc, pb). `hashlittle(key, initval)` equals
/// `hashlittle2(key, initval, 0).0`.
pub fn hashlittle2(key: &[u8], pc: u32, pb: u32) -> (u32, u32) {
    let mut a = 0xdead_beefu32.wrapping_add(key.len() as u32).wrapping_add(pc);
    let mut b = a;
    let mut c = a.wrapping_add(pb);
    let mut k = key;
    while k.len() > 12 {
        a = a.wrapping_add(u32::from_le_bytes([k[0], k[1], k[2], k[3]]));
        b = b.wrapping_add(u32::from_le_bytes([k[4], k[5], k[6], k[7]]));
        c = c.wrapping_add(u32::from_le_bytes([k[8], k[9], k[10], k[11]]));
        mix(&mut a, &mut b, &mut c);
        k = &k[12..];
    }
    if k.is_empty() {
        return (c, b);
    }
    // last block: affect all 32 bits of (c); bytes beyond the tail are zero
    let mut t = [0u8; 12];
    t[..k.len()].copy_from_slice(k);
    a = a.wrapping_add(u32::from_le_bytes([t[0], t[1], t[2], t[3]]));
    b = b.wrapping_add(u32::from_le_bytes([t[4], t[5], t[6], t[7]]));
    c = c.wrapping_add(u32::from_le_bytes([t[8], t[9], t[10], t[11]]));
    final_mix(&mut a, &mut b, &mut c);
    (c, b)
}

pub fn hashlittle(key: &[u8], initval: u32) -> u32 {
    hashlittle2(key, initval, 0).0
}

pub fn self_test() -> Result<(), String> {
    // Values printed by driver5() of lookup3.c
    let checks: [(&[u8], u32, u32, u32, u32); 4] = [
        (b"", 0, 0, 0xdead_beef, 0xdead_beef),
        (b"", 0, 0xdead_beef, 0xbd5b_7dde, 0xdead_beef),
        (b"", 0xdead_beef, 0xdead_beef, 0x9c09_3ccd, 0xbd5b_7dde),
        (b"Four score and seven years ago", 0, 0, 0x1777_0551, 0xce72_26e6),
    ];
    for (k, pc, pb, ec, eb) in checks {
        let (c, b) = hashlittle2(k, pc, pb);
        if (c, b) != (ec, eb) {
            return Err(format!("lookup3 reference mismatch: hashlittle2({:?},{pc:#x},{pb:#x}) = {c:#x},{b:#x}", String::from_utf8_lossy(k)));
        }
    }
    if hashlittle(b"Four score and seven years ago", 1) != 0xcd62_8161 {
        return Err("lookup3 reference mismatch: hashlittle(Four score..., 1)".into());
    }
    // driver5: "e3607cae bd371de4" for (pc=0,pb=1) and "cd628161 6cbea4b3" for (pc=1,pb=0)
    let (c, b) = hashlittle2(b"Four score and seven years ago", 0, 1);
    if (c, b) != (0xe360_7cae, 0xbd37_1de4) {
        return Err(format!("lookup3 reference mismatch: hashlittle2(Four score..., 0, 1) = {c:#x} {b:#x}"));
    }
    let (c, b) = hashlittle2(b"Four score and seven years ago", 1, 0);
    if (c, b) != (0xcd62_8161, 0x6cbe_a4b3) {
        return Err(format!("lookup3 reference mismatch: hashlittle2(Four score..., 1, 0) = {c:#x} {b:#x}"));
    }
    Ok(())
}
