//! Reference implementations written from the public algorithm descriptions,
//! independent of /repo. Each has a `self_test()` against published vectors;
//! `self_test_all()` is run by every check that relies on them.

pub mod blte;
pub mod bspatch;
pub mod lookup3;
pub mod lz4;
pub mod rc4;
pub mod salsa20;

/// Run all known-answer tests; Err(description) on the first mismatch.
pub fn self_test_all() -> Result<(), String> {
    salsa20::self_test()?;
    rc4::self_test()?;
    lookup3::self_test()?;
    lz4::self_test()?;
    Ok(())
}
