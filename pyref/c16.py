#!/usr/bin/env python3
"""Offline checker for the C16 event log: a second, independent bspatch for the
ZBSDIFF1 layout (32-byte header "ZBSDIFF1" + three offtin sizes; zlib control /
diff / extra streams; classic bspatch semantics: add diff to old bytes (old bytes
out of range count as 0), copy extra, relative seek).

Each log line: {"builder","old"(hex),"patch"(hex),"new_len","new_md5","ref_ok"}.
`ref_ok` is what the Rust reference bspatch concluded (patch turns old into new).
This script applies the patch itself and prints
  DISAGREE <builder> python_ok=<..> rust_ref_ok=<..>   when the two references differ,
  CHECKED n                                            at the end.

usage: c16.py <events.jsonl>"""
import sys, json, zlib, hashlib


def offtin(b):
    y = b[7] & 0x7F
    for i in range(6, -1, -1):
        y = y * 256 + b[i]
    return -y if b[7] & 0x80 else y


def bspatch(old, patch):
    if len(patch) < 32 or patch[:8] != b"ZBSDIFF1":
        raise ValueError("bad header")
    csz, dsz, osz = offtin(patch[8:16]), offtin(patch[16:24]), offtin(patch[24:32])
    if csz < 0 or dsz < 0 or osz < 0 or 32 + csz + dsz > len(patch):
        raise ValueError("bad sizes")
    ctrl = zlib.decompress(patch[32:32 + csz])
    diff = zlib.decompress(patch[32 + csz:32 + csz + dsz])
    extra = zlib.decompress(patch[32 + csz + dsz:])
    if len(ctrl) % 24:
        raise ValueError("control size")
    out = bytearray()
    oldpos = dpos = epos = 0
    n_old = len(old)
    for o in range(0, len(ctrl), 24):
        dl, el, sk = offtin(ctrl[o:o + 8]), offtin(ctrl[o + 8:o + 16]), offtin(ctrl[o + 16:o + 24])
        if dl < 0 or el < 0 or dpos + dl > len(diff) or epos + el > len(extra) or len(out) + dl + el > osz:
            raise ValueError("control out of range")
        lo, hi = oldpos, oldpos + dl
        if lo >= 0 and hi <= n_old:
            seg = old[lo:hi]
        else:
            seg = bytes(old[p] if 0 <= p < n_old else 0 for p in range(lo, hi))
        d = diff[dpos:dpos + dl]
        out += bytes((a + b) & 0xFF for a, b in zip(seg, d))
        dpos += dl
        oldpos += dl
        out += extra[epos:epos + el]
        epos += el
        oldpos += sk
    if len(out) != osz:
        raise ValueError("output length != header")
    return bytes(out)


def main():
    checked = 0
    bad = 0
    with open(sys.argv[1]) as f:
        for line in f:
            line = line.strip()
            if not line:
                continue
            ev = json.loads(line)
            old = bytes.fromhex(ev["old"])
            patch = bytes.fromhex(ev["patch"])
            try:
                out = bspatch(old, patch)
                ok = len(out) == ev["new_len"] and hashlib.md5(out).hexdigest() == ev["new_md5"]
            except Exception:
                ok = False
            checked += 1
            if ok != bool(ev["ref_ok"]):
                bad += 1
                print(f"DISAGREE {ev['builder']} python_ok={ok} rust_ref_ok={ev['ref_ok']} old_len={len(old)} patch_len={len(patch)}")
    print(f"CHECKED {checked}")
    sys.exit(1 if bad else 0)


if __name__ == "__main__":
    main()
