#!/usr/bin/env python3
"""Offline checker for the C19 event log: an independent reader of serialised
install ('IN'), download ('DL', v1-v3) and size ('DS', v1-v2) manifests, written
from the format descriptions. For every logged manifest it decodes the file
entries and the tag bit masks directly from the bytes — bit of file i in a tag
is mask[i // 8] & (0x80 >> (i % 8)), mask length is ceil(n / 8) — and compares
the file<->tag relation, the entry keys/sizes and (size manifests) the header
total with what the builder program was expected to produce.

usage: c19.py <events.jsonl>   prints MISMATCH lines and a final 'CHECKED n'."""
import sys, json


class Cur:
    def __init__(self, b):
        self.b = b
        self.p = 0

    def take(self, n):
        if self.p + n > len(self.b):
            raise ValueError("truncated at %d (+%d) of %d" % (self.p, n, len(self.b)))
        s = self.b[self.p:self.p + n]
        self.p += n
        return s

    def be(self, n):
        return int.from_bytes(self.take(n), "big")

    def cstr(self):
        e = self.b.index(b"\0", self.p)
        s = self.b[self.p:e].decode("utf-8")
        self.p = e + 1
        return s


def read_tags(c, count, n):
    mlen = (n + 7) // 8
    tags = []
    for _ in range(count):
        name = c.cstr()
        ty = c.be(2)
        mask = c.take(mlen)
        tags.append((name, ty, mask))
    return tags


def decode(b):
    c = Cur(b)
    magic = c.take(2)
    keys, sizes, total = [], [], None
    if magic == b"IN":
        ver, klen, ntags, n = c.be(1), c.be(1), c.be(2), c.be(4)
        if ver >= 2:
            c.take(6)
        tags = read_tags(c, ntags, n)
        for _ in range(n):
            c.cstr()
            keys.append(c.take(klen))
            sizes.append(c.be(4))
            if ver >= 2:
                c.take(1)
    elif magic == b"DL":
        ver, klen, has_cs, n, ntags = c.be(1), c.be(1), c.be(1), c.be(4), c.be(2)
        flag = c.be(1) if ver >= 2 else 0
        if ver >= 3:
            c.take(4)
        for _ in range(n):
            keys.append(c.take(klen))
            sizes.append(c.be(5))
            c.take(1)
            if has_cs:
                c.take(4)
            c.take(flag)
        tags = read_tags(c, ntags, n)
    elif magic == b"DS":
        ver, klen, n, ntags = c.be(1), c.be(1), c.be(4), c.be(2)
        if ver == 1:
            total = c.be(8)
            w = c.be(1)
        else:
            total = c.be(5)
            w = 4
        tags = read_tags(c, ntags, n)
        for _ in range(n):
            keys.append(c.take(klen))
            sizes.append(c.be(w))
    else:
        raise ValueError("unknown magic %r" % magic)
    if c.p != len(b):
        raise ValueError("%d trailing bytes" % (len(b) - c.p))
    return n, tags, keys, sizes, total


def files_of(mask, n):
    return [i for i in range(n) if mask[i // 8] & (0x80 >> (i % 8))]


def main():
    checked = 0
    bad = 0
    with open(sys.argv[1], "r", encoding="utf-8") as f:
        for line in f:
            line = line.strip()
            if not line:
                continue
            ev = json.loads(line)
            kind = ev["kind"]
            try:
                n, tags, keys, sizes, total = decode(bytes.fromhex(ev["hex"]))
            except Exception as e:  # layout not as documented
                print("MISMATCH %s cannot-decode-serialised-manifest %s" % (kind, e))
                bad += 1
                checked += 1
                continue
            problem = None
            if n != ev["n"] or len(tags) != len(ev["tags"]):
                problem = "counts-differ n=%d tags=%d" % (n, len(tags))
            elif [k.hex() for k in keys] != ev["keys"]:
                problem = "entry-keys-differ"
            elif [str(s) for s in sizes] != ev["sizes"]:
                problem = "entry-sizes-differ"
            elif total is not None and total != sum(int(s) for s in ev["sizes"]):
                problem = "header-total-differs-from-sum header=%d" % total
            else:
                for (name, ty, mask), want in zip(tags, ev["tags"]):
                    got = files_of(mask, n)
                    if name != want["name"] or ty != want["type"] or got != want["files"]:
                        problem = "msb-first-bit-relation-differs-from-set-model tag=%s mask=%s got=%s want=%s" % (
                            name, mask.hex(), got[:40], want["files"][:40])
                        break
            if problem:
                print("MISMATCH %s %s" % (kind, problem))
                bad += 1
            checked += 1
    print("CHECKED %d" % checked)
    return 1 if bad else 0


if __name__ == "__main__":
    sys.exit(main())
