#!/usr/bin/env python3
"""Offline checker for the C01 event log: a second, independent BLTE decoder
(own header/chunk-table parser, zlib from the standard library, own LZ4 block
decoder, own Salsa20/20 and RC4, hashlib MD5), written from the format
description:

  "BLTE", u32 BE header_size. 0: one chunk = rest of file. Else: u8 table format
  (0x0F: 24-byte entries, 0x10: 40-byte entries), u24 BE count, entries
  {u32 BE stored size, u32 BE decoded size, MD5(stored chunk)[, MD5(decoded chunk)]},
  header_size = 12 + count*entry, chunks back to back.
  chunk = mode byte + body: 'N' raw | 'Z' zlib | '4' u64 LE decoded size + one LZ4
  block | 'F' nested BLTE | 'E' u8 8, key name u64 LE, u8 iv_len (4|8), iv,
  u8 'S'|'A', ciphertext; plaintext is again a chunk (not 'E'); Salsa20 nonce =
  iv (zero padded to 8) XOR LE32(chunk index); ARC4 keyed with the 16-byte key.

Each log line: {"entry","container"(hex),"keys"{name16hex:keyhex},"expect_len",
"expect_md5","ref_ok","table_ok"}. `ref_ok`/`table_ok` are the conclusions of the
Rust reference decoder. This script decodes the container itself and prints
  DISAGREE <entry> what=<content|table> python=<..> rust_ref=<..>
when the two references differ, and `CHECKED n` at the end.

usage: c01.py <events.jsonl> [jobs]"""
import sys, json, zlib, hashlib, struct

M32 = 0xFFFFFFFF


def rotl(x, n):
    return ((x << n) & M32) | (x >> (32 - n))


def salsa20_block(key16, nonce8, counter):
    c = struct.unpack('<4I', b'expand 16-byte k')
    k = struct.unpack('<4I', key16)
    n = struct.unpack('<2I', nonce8)
    s = [c[0], k[0], k[1], k[2], k[3], c[1], n[0], n[1], counter & M32, (counter >> 32) & M32,
         c[2], k[0], k[1], k[2], k[3], c[3]]
    x = list(s)
    for _ in range(10):
        for (a, b, c_, d) in ((0, 4, 8, 12), (5, 9, 13, 1), (10, 14, 2, 6), (15, 3, 7, 11),
                              (0, 1, 2, 3), (5, 6, 7, 4), (10, 11, 8, 9), (15, 12, 13, 14)):
            x[b] ^= rotl((x[a] + x[d]) & M32, 7)
            x[c_] ^= rotl((x[b] + x[a]) & M32, 9)
            x[d] ^= rotl((x[c_] + x[b]) & M32, 13)
            x[a] ^= rotl((x[d] + x[c_]) & M32, 18)
    return struct.pack('<16I', *[(x[i] + s[i]) & M32 for i in range(16)])


def casc_salsa(key, iv, block_index, msg):
    nonce = bytearray(8)
    nonce[:len(iv)] = iv
    bi = struct.pack('<I', block_index & M32)
    for i in range(4):
        nonce[i] ^= bi[i]
    nonce = bytes(nonce)
    out = bytearray()
    for blk in range((len(msg) + 63) // 64):
        ks = salsa20_block(key, nonce, blk)
        seg = msg[blk * 64:(blk + 1) * 64]
        n = len(seg)
        out += (int.from_bytes(seg, 'little') ^ int.from_bytes(ks[:n], 'little')).to_bytes(n, 'little')
    return bytes(out)


def rc4(key, msg):
    S = list(range(256))
    j = 0
    for i in range(256):
        j = (j + S[i] + key[i % len(key)]) & 255
        S[i], S[j] = S[j], S[i]
    i = j = 0
    out = bytearray()
    for b in msg:
        i = (i + 1) & 255
        j = (j + S[i]) & 255
        S[i], S[j] = S[j], S[i]
        out.append(b ^ S[(S[i] + S[j]) & 255])
    return bytes(out)


def lz4_block(src, want):
    out = bytearray()
    i = 0
    n = len(src)
    if n == 0:
        return bytes(out)
    while True:
        tok = src[i]; i += 1
        lit = tok >> 4
        if lit == 15:
            while True:
                b = src[i]; i += 1
                lit += b
                if b != 255:
                    break
        if i + lit > n:
            raise ValueError("lz4 literal run beyond input")
        out += src[i:i + lit]
        i += lit
        if i == n:
            break
        off = src[i] | (src[i + 1] << 8); i += 2
        if off == 0 or off > len(out):
            raise ValueError("lz4 bad offset")
        ml = tok & 15
        if ml == 15:
            while True:
                b = src[i]; i += 1
                ml += b
                if b != 255:
                    break
        ml += 4
        start = len(out) - off
        if off >= ml:
            out += out[start:start + ml]
        else:
            for k in range(ml):
                out.append(out[start + k])
        if len(out) > want:
            raise ValueError("lz4 output beyond stated size")
    return bytes(out)


def decode_chunk(stored, index, keys, depth=0, allow_e=True):
    if not stored:
        raise ValueError("empty chunk")
    mode, body = stored[0:1], stored[1:]
    if mode == b'N':
        return body
    if mode == b'Z':
        d = zlib.decompressobj()
        out = d.decompress(body)
        if not d.eof:
            raise ValueError("zlib stream truncated")
        return out
    if mode == b'4':
        if len(body) < 8:
            raise ValueError("lz4 size prefix")
        want = struct.unpack('<Q', body[:8])[0]
        out = lz4_block(body[8:], want)
        if len(out) != want:
            raise ValueError("lz4 size mismatch")
        return out
    if mode == b'F':
        if depth > 8:
            raise ValueError("nesting")
        return b''.join(c[3] for c in decode_file(body, keys, depth + 1)[1])
    if mode == b'E':
        if not allow_e:
            raise ValueError("nested encryption")
        if len(body) < 1 or body[0] != 8 or len(body) < 10:
            raise ValueError("E key name")
        name = struct.unpack('<Q', body[1:9])[0]
        ivl = body[9]
        if ivl not in (4, 8) or len(body) < 10 + ivl + 1:
            raise ValueError("E iv")
        iv = body[10:10 + ivl]
        typ = body[10 + ivl:11 + ivl]
        ct = body[11 + ivl:]
        key = keys.get(name)
        if key is None:
            raise ValueError("missing key")
        if typ == b'S':
            pt = casc_salsa(key, iv, index, ct)
        elif typ == b'A':
            pt = rc4(key, ct)
        else:
            raise ValueError("cipher")
        return decode_chunk(pt, index, keys, depth, False)
    raise ValueError("unknown mode")


def decode_file(data, keys, depth=0):
    """returns (header_size, [(table_entry|None, start, end, decoded)])"""
    if len(data) < 8 or data[:4] != b'BLTE':
        raise ValueError("magic")
    hs = struct.unpack('>I', data[4:8])[0]
    if hs == 0:
        return hs, [(None, 8, len(data), decode_chunk(data[8:], 0, keys, depth))]
    fmt = data[8]
    esz = {0x0F: 24, 0x10: 40}.get(fmt)
    if esz is None:
        raise ValueError("table format")
    count = int.from_bytes(data[9:12], 'big')
    if count == 0 or hs != 12 + count * esz or len(data) < hs:
        raise ValueError("header size")
    pos = hs
    chunks = []
    for i in range(count):
        e = data[12 + i * esz:12 + (i + 1) * esz]
        cs, ds = struct.unpack('>II', e[:8])
        ck = e[8:24]
        dck = e[24:40] if esz == 40 else None
        end = pos + cs
        if end > len(data):
            raise ValueError("chunk beyond file")
        chunks.append(((cs, ds, ck, dck), pos, end, decode_chunk(data[pos:end], i, keys, depth)))
        pos = end
    if pos != len(data):
        raise ValueError("trailing bytes")
    return hs, chunks


def table_truthful(data, chunks):
    for entry, start, end, decoded in chunks:
        if entry is None:
            continue
        cs, ds, ck, dck = entry
        stored = data[start:end]
        if cs != len(stored) or ck != hashlib.md5(stored).digest() or ds != len(decoded):
            return False
        if dck is not None and dck != hashlib.md5(decoded).digest():
            return False
    return True


def check_line(line):
    ev = json.loads(line)
    data = bytes.fromhex(ev["container"])
    keys = {int(n, 16): bytes.fromhex(k) for n, k in ev["keys"].items()}
    res = []
    try:
        _, chunks = decode_file(data, keys)
        content = b''.join(c[3] for c in chunks)
        ok = len(content) == ev["expect_len"] and hashlib.md5(content).hexdigest() == ev["expect_md5"]
    except Exception:
        ok = False
        chunks = None
    if ok != bool(ev["ref_ok"]):
        res.append(f"DISAGREE {ev['entry']} what=content python={ok} rust_ref={ev['ref_ok']} container_len={len(data)}")
    if ok and ev.get("table_ok") is not None:
        t = table_truthful(data, chunks)
        if t != bool(ev["table_ok"]):
            res.append(f"DISAGREE {ev['entry']} what=table python={t} rust_ref={ev['table_ok']} container_len={len(data)}")
    return res


def self_test():
    key = bytes([0x80] + [0] * 15)
    blk = salsa20_block(key, bytes(8), 0)
    assert blk.hex().upper().startswith("4DFA5E481DA23EA09A31022050859936"), "salsa20 ECRYPT vector"
    assert rc4(b"Key", b"Plaintext").hex() == "bbf316e8d940af0ad3", "rc4 vector"
    assert lz4_block(bytes([0x12, 0x61, 0x01, 0x00, 0x50]) + b"aaaaa", 12) == b"a" * 12, "lz4 overlap"


def main():
    self_test()
    jobs = int(sys.argv[2]) if len(sys.argv) > 2 else 1
    with open(sys.argv[1]) as f:
        lines = [l for l in (x.strip() for x in f) if l]
    if jobs > 1 and len(lines) > 64:
        import multiprocessing as mp
        with mp.Pool(jobs) as pool:
            results = pool.map(check_line, lines, chunksize=16)
    else:
        results = [check_line(l) for l in lines]
    bad = 0
    for r in results:
        for msg in r:
            bad += 1
            print(msg)
    print(f"CHECKED {len(lines)}")
    sys.exit(1 if bad else 0)


if __name__ == "__main__":
    main()
