#!/usr/bin/env python3
"""Offline checker for the C09 event log: second, independent implementations of
Salsa20/20 (128-bit key, CASC nonce convention), RC4, lookup3 hashlittle2 and MD5
(hashlib), written from the algorithm descriptions. Replays every logged call and
compares with the output the Rust code produced.

usage: c09.py <events.jsonl>   prints MISMATCH lines and a final 'CHECKED n'."""
import sys, json, hashlib, struct

M32 = 0xFFFFFFFF
def rotl(x, n): return ((x << n) & M32) | (x >> (32 - n))

def salsa20_block(key16, nonce8, counter):
    c = struct.unpack('<4I', b'expand 16-byte k')
    k = struct.unpack('<4I', key16)
    n = struct.unpack('<2I', nonce8)
    s = [c[0], k[0], k[1], k[2], k[3], c[1], n[0], n[1], counter & M32, (counter >> 32) & M32,
         c[2], k[0], k[1], k[2], k[3], c[3]]
    x = list(s)
    def qr(a, b, c_, d):
        x[b] ^= rotl((x[a] + x[d]) & M32, 7)
        x[c_] ^= rotl((x[b] + x[a]) & M32, 9)
        x[d] ^= rotl((x[c_] + x[b]) & M32, 13)
        x[a] ^= rotl((x[d] + x[c_]) & M32, 18)
    for _ in range(10):
        qr(0, 4, 8, 12); qr(5, 9, 13, 1); qr(10, 14, 2, 6); qr(15, 3, 7, 11)
        qr(0, 1, 2, 3); qr(5, 6, 7, 4); qr(10, 11, 8, 9); qr(15, 12, 13, 14)
    return struct.pack('<16I', *[(x[i] + s[i]) & M32 for i in range(16)])

def casc_salsa(key, iv, block_index, msg):
    nonce = bytearray(8)
    nonce[:len(iv)] = iv
    bi = struct.pack('<I', block_index & M32)
    for i in range(4):
        nonce[i] ^= bi[i]
    out = bytearray(len(msg))
    for blk in range((len(msg) + 63) // 64):
        ks = salsa20_block(key, bytes(nonce), blk)
        seg = msg[blk * 64:(blk + 1) * 64]
        out[blk * 64:blk * 64 + len(seg)] = bytes(a ^ b for a, b in zip(seg, ks))
    return bytes(out)

def rc4(key, msg):
    S = list(range(256)); j = 0
    for i in range(256):
        j = (j + S[i] + key[i % len(key)]) & 255
        S[i], S[j] = S[j], S[i]
    i = j = 0; out = bytearray()
    for b in msg:
        i = (i + 1) & 255; j = (j + S[i]) & 255
        S[i], S[j] = S[j], S[i]
        out.append(b ^ S[(S[i] + S[j]) & 255])
    return bytes(out)

def hashlittle2(data, pc, pb):
    a = b = c = (0xdeadbeef + len(data) + pc) & M32
    c = (c + pb) & M32
    k = data
    while len(k) > 12:
        a = (a + struct.unpack_from('<I', k, 0)[0]) & M32
        b = (b + struct.unpack_from('<I', k, 4)[0]) & M32
        c = (c + struct.unpack_from('<I', k, 8)[0]) & M32
        a = (a - c) & M32; a ^= rotl(c, 4);  c = (c + b) & M32
        b = (b - a) & M32; b ^= rotl(a, 6);  a = (a + c) & M32
        c = (c - b) & M32; c ^= rotl(b, 8);  b = (b + a) & M32
        a = (a - c) & M32; a ^= rotl(c, 16); c = (c + b) & M32
        b = (b - a) & M32; b ^= rotl(a, 19); a = (a + c) & M32
        c = (c - b) & M32; c ^= rotl(b, 4);  b = (b + a) & M32
        k = k[12:]
    if len(k) == 0:
        return c, b
    t = k + b'\0' * (12 - len(k))
    a = (a + struct.unpack_from('<I', t, 0)[0]) & M32
    b = (b + struct.unpack_from('<I', t, 4)[0]) & M32
    c = (c + struct.unpack_from('<I', t, 8)[0]) & M32
    c ^= b; c = (c - rotl(b, 14)) & M32
    a ^= c; a = (a - rotl(c, 11)) & M32
    b ^= a; b = (b - rotl(a, 25)) & M32
    c ^= b; c = (c - rotl(b, 16)) & M32
    a ^= c; a = (a - rotl(c, 4)) & M32
    b ^= a; b = (b - rotl(a, 14)) & M32
    c ^= b; c = (c - rotl(b, 24)) & M32
    return c, b

def selftest():
    key = bytes([0x80] + [0] * 15)
    assert salsa20_block(key, bytes(8), 0).hex().upper().startswith('4DFA5E481DA23EA09A31022050859936')
    assert rc4(b'Key', b'Plaintext').hex() == 'bbf316e8d940af0ad3'
    assert hashlittle2(b'', 0, 0) == (0xdeadbeef, 0xdeadbeef)
    assert hashlittle2(b'Four score and seven years ago', 0, 0) == (0x17770551, 0xce7226e6)
    assert hashlittle2(b'Four score and seven years ago', 1, 0)[0] == 0xcd628161

def main():
    selftest()
    n = 0; bad = 0
    for line in open(sys.argv[1]):
        line = line.strip()
        if not line:
            continue
        e = json.loads(line)
        f = e['fn']
        if f == 'salsa20':
            exp = casc_salsa(bytes.fromhex(e['key']), bytes.fromhex(e['iv']), e['block_index'], bytes.fromhex(e['msg']))
            ok = exp.hex() == e['out']
        elif f == 'arc4':
            ok = rc4(bytes.fromhex(e['key']), bytes.fromhex(e['msg'])).hex() == e['out']
        elif f == 'lookup3':
            d = bytes.fromhex(e['data'])
            c, b = hashlittle2(d, e['pc'], e['pb'])
            ok = (c, b) == (e['out_c'], e['out_b']) and hashlittle2(d, e['pc'], 0)[0] == e['hashlittle']
        elif f == 'md5':
            ok = hashlib.md5(bytes.fromhex(e['data'])).hexdigest() == e['out']
        else:
            continue
        n += 1
        if not ok:
            bad += 1
            if bad <= 20:
                print('MISMATCH %s %s' % (f, json.dumps(e)[:400]))
    print('CHECKED %d' % n)
    sys.exit(1 if bad else 0)

if __name__ == '__main__':
    main()
